"""C16 - statistics are true bounds and pruning never discards matching data.

Deciding method (TLA+ only): Stats.tla defines, per physical type, the admissible orders on PLAIN
byte strings, what it means for (min, max, null_count) to bound a collection, when `v op probe`
holds and the pruning rule `Might`.  MC_Stats model-checks soundness and tightness of the rule,
MinMax, the filter list and the interval-overlap characterisation on small domains (floats with
-inf, -1.5, -0.0, +0.0, 1.5, +inf, NaN; byte strings of unequal length over {00, 7f, 80, ff});
StatsInt is proved for all integers by Apalache.  Conformance, all judged by TLC executing
StatsTrace.tla on what the real library did:
  (a) carquet-written files from TLC write histories (MC_WriterGen): every page-header / chunk
      Statistics struct found by the TLA+ reference reader must bound the page's non-null values
      and state the exact null count;
  (b) the statistics builder on TLC-generated call sequences (MC_StatsSeq), all physical types;
  (c) reference-written files (TLA+ reference writer, MC_StatsFiles) with truthful statistics in
      the new / deprecated fields or absent: column_statistics, row_group_matches for all groups
      x 6 operators x probes at, between and beyond min/max, filter_row_groups for several caps;
  (d) statistics_compare, statistics_range_overlaps, column_index_page_might_match directly
      (MC_StatsHelpers).
A claim is refuted only if it is wrong under every admissible order of the type.
"""
import json
import os
import shutil
import subprocess
import tempfile
import threading
import time

from vlib import common
from vlib.common import hexs
from checks import wcommon

LEVEL = "model_checking"
OPS = ["EQ", "NE", "LT", "LE", "GT", "GE"]
TYPE_NAMES = ["BOOLEAN", "INT32", "INT64", "INT96", "FLOAT", "DOUBLE", "BYTE_ARRAY", "FLBA"]
OWNED = ("page-stats:", "chunk-stats:", "builder:", "prune:", "filter:", "colstats:", "compare:", "overlaps:",
         "page-match:", "fault:")
NPROC = int(os.environ.get("VERIF_C16_NPROC", "6"))
WORKERS = int(os.environ.get("VERIF_C16_WORKERS", "6"))


# --------------------------------------------------------------------------------------------
# model checking of the specification itself (no implementation involved)
# --------------------------------------------------------------------------------------------
class SelfCheck(threading.Thread):
    """MC_Stats (TLC) and StatsInt (Apalache) run while the conformance parts execute."""

    def __init__(self, tier):
        super().__init__(daemon=True)
        self.tier, self.res, self.apa, self.err, self.impl = tier, None, None, None, None

    def run(self):
        try:
            self.res = common.run_tlc("MC_Stats", cfg="MC_Stats_quick" if self.tier == "quick" else "MC_Stats",
                                      workers=WORKERS, want_cases=False, timeout=1500)
            self.apa = apalache("StatsInt", "SoundAndTight")
            if self.tier != "quick":
                # design model of the (repaired) operator table of reader/statistics.c: sound and as tight as Stats.Might
                self.impl = common.run_tlc("MC_StatsImpl", cfg="MC_StatsImpl_fixed", workers=WORKERS, want_cases=False, timeout=900)
        except Exception as ex:            # reported by join_ok
            self.err = ex

    def join_ok(self, chk):
        self.join()
        if self.err:
            raise common.InfraError("C16 self-check crashed: %r" % (self.err,))
        r = self.res
        if r.violated or r.rc != 0 or r.error:
            raise common.InfraError("Stats.tla self-check MC_Stats failed (%s rc=%s)\n%s" % (r.violated, r.rc, r.out[-2500:]))
        chk.add_tlc(r)
        chk.part("model", mc_stats_states=r.distinct, mc_stats_wall_s=round(r.wall, 1),
                 invariants="Sound1 SoundSets SoundAbsent Tight MinMaxOk OverlapOk OrderOk FilterOk + ASSUME Vectors",
                 apalache_statsint=self.apa)
        if self.impl is not None:
            if self.impl.violated or self.impl.rc != 0:
                raise common.InfraError("MC_StatsImpl_fixed failed (%s rc=%s)\n%s" % (self.impl.violated, self.impl.rc, self.impl.out[-2000:]))
            chk.add_tlc(self.impl)
            chk.part("model", mc_statsimpl_fixed_states=self.impl.distinct)
        if self.apa not in ("NoError", "unavailable"):
            raise common.InfraError("Apalache did not prove StatsInt.SoundAndTight: %s" % self.apa)


def apalache(module, inv):
    exe = shutil.which("apalache-mc")
    if not exe:
        return "unavailable"
    out = tempfile.mkdtemp(prefix="apa-", dir=common.scratch_root())
    try:
        r = subprocess.run([exe, "check", "--length=0", "--inv=" + inv, "--out-dir=" + out,
                            os.path.join(common.SPEC, "sys", module + ".tla")],
                           stdout=subprocess.PIPE, stderr=subprocess.STDOUT, text=True, timeout=600, cwd=out)
        for ln in r.stdout.splitlines():
            if "The outcome is:" in ln:
                return ln.split("The outcome is:")[1].split()[0]
        return "no-outcome rc=%s" % r.returncode
    except subprocess.TimeoutExpired:
        return "timeout"
    finally:
        shutil.rmtree(out, ignore_errors=True)


# --------------------------------------------------------------------------------------------
# trace validation with the full report (verdicts + observations + counters)
# --------------------------------------------------------------------------------------------
def validate(execs, nproc):
    from concurrent.futures import ThreadPoolExecutor
    chunks = common.parallel_chunks(execs, nproc)
    tdir = tempfile.mkdtemp(prefix="c16trace-", dir=common.scratch_root())

    def work(args):
        i, ex = args
        path = os.path.join(tdir, "t%d.ndjson" % i)
        with open(path, "w") as fh:
            for e in ex:
                fh.write(json.dumps({"e": "Reset", "id": e[0].get("id", "")}) + "\n")
                for ev in e:
                    fh.write(json.dumps(ev) + "\n")
        return common.run_tlc("StatsTrace", workers=1, env={"TRACE": path}, timeout=2400, heap="3g")
    verdicts, obs, stats, ress = [], [], {}, []
    try:
        with ThreadPoolExecutor(max_workers=nproc) as ex:
            for res in ex.map(work, list(enumerate(chunks))):
                ress.append(res)
                if res.error or res.rc != 0 or not res.cases:
                    i = res.out.find("Error:")
                    with open(os.path.join(common.scratch_root(), "c16-last-failed-trace-validation.log"), "w") as fh:
                        fh.write(res.out)
                    raise common.InfraError("trace validation with StatsTrace failed (rc=%s %s)\n%s" % (
                        res.rc, res.error, res.out[max(0, i - 200):i + 2500] if i >= 0 else res.out[-3000:]))
                rep = res.cases[-1]
                verdicts.extend(rep["verdicts"])
                obs.extend(rep["observations"])
                for k, v in rep["stats"].items():
                    stats[k] = stats.get(k, 0) + v
    finally:
        if not os.environ.get("VERIF_C16_KEEP_TRACES"):
            shutil.rmtree(tdir, ignore_errors=True)
    return verdicts, obs, stats, ress


def tlc_cases(chk, module, cfg_text, what, simulate=None, depth=None):
    r = common.run_tlc(module, constants_text=cfg_text, workers=WORKERS, simulate=simulate, depth=depth, timeout=1500)
    if r.rc != 0 and not (simulate and r.cases):
        raise common.InfraError("%s: %s failed rc=%s %s\n%s" % (what, module, r.rc, r.error, r.out[-2500:]))
    chk.add_tlc(r)
    return r.cases


def tla_set(xs):
    return "{%s}" % ", ".join('"%s"' % x if isinstance(x, str) else str(x) for x in xs)


GEN_TAIL = "INIT Init\nNEXT Next\nINVARIANT Emit\nCHECK_DEADLOCK FALSE\n"


def opt_hex(has, v):
    return hexs(v) if has else "~"


def num(s, bad=-999):
    try:
        return int(s)
    except (TypeError, ValueError):
        return bad


def unhex_opt(s):
    return [] if s in ("~", "-", "") else list(bytes.fromhex(s))


def fault_execs(faults, leaky):
    out = [[{"id": f.case_id, "e": "Fault", "kind": f.signature()}] for f in faults]
    out += [[{"id": cid, "e": "Fault", "kind": "leak"}] for cid in leaky]
    return out


# --------------------------------------------------------------------------------------------
# (a) writer page statistics
# --------------------------------------------------------------------------------------------
HIST_CFG = """CONSTANTS
 SchemaIds = %s
 RowChoices = %s
 Offsets = %s
 PatIds = %s
 SplitIds = %s
 GroupChoices = %s
""" + GEN_TAIL


def stat_histories(chk, schemas, rows, offsets, pats, splits, groups):
    cases = tlc_cases(chk, "MC_StatsHist", HIST_CFG % tuple(tla_set(x) for x in (schemas, rows, offsets, pats, splits, groups)),
                      "write histories")
    return [c["ops"] for c in cases]


def part_writer(chk, tier):
    hs = []
    if tier == "quick":
        hs += stat_histories(chk, [1, 2], [4], range(10), [1, 3], [2, 5], [1])
        hs += stat_histories(chk, [5], [3], [0, 3, 6], [1, 2], [1, 2], [2])
        hs += stat_histories(chk, [3, 4], [4], range(6), [1, 2, 4], [1, 3], [2])
        cfgs = [(0, 1 << 20), (0, 1)]
    else:
        hs += stat_histories(chk, [1, 2, 3, 4, 5], [1, 5], range(10), [1, 2, 3, 4, 6], [1, 2, 3, 5], [2])
        hs += wcommon.gen_histories(chk, [4], [2], 1, 2, workers=WORKERS)
        cfgs = [(0, 1 << 20), (0, 1), (1, 1)]
    execs, meta, files, faults = wcommon.run_histories(chk, hs, cfgs, modes=("f",), with_file=True, nproc=NPROC, label="a")
    keep = ("Create", "WriteBatch", "NewRowGroup", "Close", "File", "Fault")
    out = []
    for ex in execs:
        ex = [e for e in ex if e.get("e") in keep]
        if ex:
            out.append(ex)
    for cid, (ops, codec, page) in meta.items():
        chk.count(("a", ops, codec, page), wcommon.nontrivial_history(ops))
    if hs:
        chk.sample({"part": "a", "history": hs[len(hs) // 2]})
    return out, {cid: {"part": "a", "ops": ops, "codec": codec, "page": page} for cid, (ops, codec, page) in meta.items()}, \
        dict(histories=len(hs), configs=[(wcommon.CODECS[c], p) for c, p in cfgs])


# --------------------------------------------------------------------------------------------
# (b) statistics builder
# --------------------------------------------------------------------------------------------
def builder_line(cid, case, arena):
    toks = [cid, "T:%d:%d" % (case["t"], case["tlen"])]
    for c in case["calls"]:
        if c["k"] == "v":
            toks.append("V:" + hexs(wcommon.enc_vals(case["t"], c["vals"])))
        elif c["k"] == "n":
            toks.append("N:%d" % c["n"])
        else:
            toks.append("E")
    toks += ["U:a" if arena else "U", "D"]
    return " ".join(toks)


def builder_event(cid, case, toks):
    sts, u = [], None
    for t in toks:
        k, _, v = t.partition("=")
        if k == "V":
            sts.append(num(v))
        elif k in ("N", "E"):
            sts.append(0 if v == "ok" else -999)
        elif k == "U":
            u = v.split(":")
    ev = {"id": cid, "e": "Build", "t": case["t"], "tlen": case["tlen"], "calls": case["calls"], "sts": sts,
          "st": -999, "hasNulls": False, "nulls": 0, "hasMin": False, "min": [], "hasMax": False, "max": []}
    if u is not None:
        ev["st"] = num(u[0])
        if len(u) >= 7:
            ev.update(hasNulls=u[1] == "1", nulls=num(u[2]), hasMin=u[3] == "1", min=unhex_opt(u[4]),
                      hasMax=u[5] == "1", max=unhex_opt(u[6]))
    return ev


def part_builder(chk, tier, binary):
    specs = [0, 1000, 2000, 3000, 4000, 5000, 6000, 7003]
    cases = []
    if tier == "quick":
        cases += tlc_cases(chk, "MC_StatsSeq", "CONSTANTS\n TypeSpecs = %s\n MaxCalls = 2\n K = 4\n%s" % (tla_set(specs), GEN_TAIL), "builder cases")
        cases += tlc_cases(chk, "MC_StatsSeq", "CONSTANTS\n TypeSpecs = %s\n MaxCalls = 4\n K = 10\n%s" % (tla_set(specs + [7300]), GEN_TAIL),
                           "builder cases (simulated)", simulate=3, depth=5)
    else:
        cases += tlc_cases(chk, "MC_StatsSeq", "CONSTANTS\n TypeSpecs = %s\n MaxCalls = 2\n K = 8\n%s" % (tla_set(specs), GEN_TAIL), "builder cases")
        cases += tlc_cases(chk, "MC_StatsSeq", "CONSTANTS\n TypeSpecs = %s\n MaxCalls = 1\n K = 10\n%s" % (tla_set(specs + [7300]), GEN_TAIL), "builder cases")
        cases += tlc_cases(chk, "MC_StatsSeq", "CONSTANTS\n TypeSpecs = %s\n MaxCalls = 5\n K = 10\n%s" % (tla_set(specs + [7300]), GEN_TAIL),
                           "builder cases (simulated)", simulate=40, depth=6)
    seen, uniq = set(), []
    for c in cases:
        k = json.dumps(c, sort_keys=True)
        if k not in seen:
            seen.add(k)
            uniq.append(c)
    cases = uniq
    lines = [builder_line("b%d" % i, c, i % 2 == 1) for i, c in enumerate(cases)]
    res, faults, leaky = common.run_harness_parallel(binary, lines, nproc=NPROC)
    execs, meta = [], {}
    for i, c in enumerate(cases):
        cid = "b%d" % i
        meta[cid] = {"part": "b", "case": c, "line": lines[i]}
        nvals = sum(len(x["vals"]) for x in c["calls"] if x["k"] == "v")
        chk.count(("b", c), nvals >= 2)
        if cid in res:
            execs.append([builder_event(cid, c, res[cid])])
    execs += fault_execs(faults, leaky)
    if cases:
        chk.sample({"part": "b", "case": cases[len(cases) // 3]})
    return execs, meta, dict(cases=len(cases), types=sorted({(c["t"], c["tlen"]) for c in cases}))


# --------------------------------------------------------------------------------------------
# (c) pruning through the reader API on reference-written files
# --------------------------------------------------------------------------------------------
def file_line(cid, path, case):
    ng = len(case["rgs"])
    toks = [cid, "O:" + path]
    for g in range(ng):
        for c in range(2):
            toks.append("S:%d:%d" % (g, c))
    toks += ["S:-1:1", "S:%d:1" % ng, "S:0:2", "S:0:-1"]
    queries = []
    for op in range(6):
        for p in case["probes"]:
            queries.append((1, op, p))
    decoy = case["rgs"][0][0]["data"][0]
    for op in range(6):
        queries.append((0, op, decoy))
    for (col, op, p) in queries:
        for g in range(ng):
            toks.append("M:%d:%d:%d:%s" % (g, col, op, hexs(p)))
        for cap in caps(ng):
            toks.append("F:%d:%d:%s:%d" % (col, op, hexs(p), cap))
    toks.append("Z")
    return " ".join(toks), queries


def caps(ng):
    return sorted({1, 2, ng, ng + 2})


def file_events(cid, case, queries, toks):
    ng = len(case["rgs"])
    ev = [{"id": cid, "e": "RFile", "cols": case["cols"], "rgs": case["rgs"]}]
    it = iter(toks)
    first = next(it, "")
    if not first.startswith("O=ok"):
        return [{"id": cid, "e": "Fault", "kind": "reference-file-rejected:" + first}]
    coords = [(g, c) for g in range(ng) for c in range(2)] + [(-1, 1), (ng, 1), (0, 2), (0, -1)]
    for (g, c) in coords:
        f = next(it, "S=-999")[2:].split(":")
        e = {"id": cid, "e": "ColStats", "rg": g, "col": c, "st": num(f[0]), "numValues": 0, "hasNulls": False, "nulls": 0,
             "hasMinMax": False, "min": [], "max": []}
        if len(f) >= 9:
            e.update(numValues=num(f[1]), hasNulls=f[2] == "1", nulls=num(f[3]), hasMinMax=f[6] == "1",
                     min=unhex_opt(f[7]), max=unhex_opt(f[8]))
        ev.append(e)
    for (col, op, p) in queries:
        sts, mights = [], []
        for g in range(ng):
            f = next(it, "M=-999:0")[2:].split(":")
            sts.append(num(f[0]))
            mights.append(len(f) > 1 and f[1] == "1")
        fl = []
        for cap in caps(ng):
            f = next(it, "F=-999:-")[2:].split(":")
            idx = [] if len(f) < 2 or f[1] in ("-", "") else [num(x) for x in f[1].split(",")]
            fl.append({"cap": cap, "ret": num(f[0]), "idx": idx})
        ev.append({"id": cid, "e": "Query", "col": col, "op": op, "probe": p, "sts": sts, "mights": mights, "filters": fl})
    return ev


def part_files(chk, tier, binary):
    if tier == "quick":
        cfg = "CONSTANTS\n Types = {1, 2, 4, 5, 6, 7}\n Modes = %s\n Layouts = {1, 2, 3, 4, 5, 6}\n%s" % (
            tla_set(["new", "old", "mixed"]), GEN_TAIL)
    else:
        cfg = "CONSTANTS\n Types = {1, 2, 4, 5, 6, 7}\n Modes = %s\n Layouts = {1, 2, 3, 4, 5, 6}\n%s" % (
            tla_set(["new", "old", "both", "absent", "nullsonly", "mixed"]), GEN_TAIL)
    cases = tlc_cases(chk, "MC_StatsFiles", cfg, "reference files with statistics")
    bad = [c for c in cases if not c["selfok"]]
    if bad:
        raise common.InfraError("MC_StatsFiles: reference reader does not recover content/statistics of %d generated files (t=%s layout=%s mode=%s)"
                                % (len(bad), bad[0]["t"], bad[0]["layout"], bad[0]["mode"]))
    fdir = os.path.join(common.scratch_root(), "c16files-%d" % os.getpid())
    os.makedirs(fdir, exist_ok=True)
    lines, qs, meta, execs = [], {}, {}, []
    try:
        for i, c in enumerate(cases):
            cid = "f%d" % i
            path = os.path.join(fdir, cid + ".parquet")
            with open(path, "wb") as fh:
                fh.write(bytes(c["bytes"]))
            ln, queries = file_line(cid, path, c)
            lines.append(ln)
            qs[cid] = queries
            meta[cid] = {"part": "c", "t": c["t"], "layout": c["layout"], "mode": c["mode"], "order": c["order"],
                         "file_hex": bytes(c["bytes"]).hex(), "rgs": c["rgs"], "cols": c["cols"], "probes": c["probes"]}
        res, faults, leaky = common.run_harness_parallel(binary, lines, nproc=NPROC)
    finally:
        shutil.rmtree(fdir, ignore_errors=True)
    nq = 0
    for i, c in enumerate(cases):
        cid = "f%d" % i
        if cid in res:
            execs.append(file_events(cid, c, qs[cid], res[cid]))
        for (col, op, p) in qs[cid]:
            nq += 1
            chk.count(("c", c["t"], c["layout"], c["mode"], c["order"], col, op, p), True)
    execs += fault_execs(faults, leaky)
    if cases:
        c = cases[len(cases) // 2]
        chk.sample({"part": "c", "type": TYPE_NAMES[c["t"]], "layout": c["layout"], "mode": c["mode"], "stat_order": c["order"],
                    "row_groups": [{"data": g[1]["data"][:3], "nulls": g[1]["nulls"], "stats": g[1]["st"]} for g in c["rgs"]],
                    "file_bytes": len(c["bytes"])})
    return execs, meta, dict(files=len(cases), queries=nq, ops=OPS, caps="1, 2, n, n+2")


# --------------------------------------------------------------------------------------------
# (d) helpers
# --------------------------------------------------------------------------------------------
def helper_exec(cid, rec, tier, idx):
    t, tlen, s = rec["t"], rec["tlen"], rec["s"]
    smin, smax = opt_hex(s["hasMin"], s["min"]), opt_hex(s["hasMax"], s["max"])
    toks, evs = [cid], []
    vals, queries = rec["vals"], rec["queries"]
    if tier == "quick":                              # a third of the queries per record, rotating with the seed
        r = (idx + common.seed()) % 3
        queries = [q for j, q in enumerate(queries) if j % 3 == r]
    for v in vals:
        toks.append("C:%d:%s:%s:%s" % (t, smin, smax, hexs(v)))
        evs.append({"id": cid, "e": "Compare", "t": t, "s": s, "v": v})
    for q in queries:
        vlen = len(q["min"]) if q["hasMin"] else (len(q["max"]) if q["hasMax"] else 0)
        toks.append("R:%d:%s:%s:%s:%s:%d" % (t, smin, smax, opt_hex(q["hasMin"], q["min"]), opt_hex(q["hasMax"], q["max"]), vlen))
        evs.append({"id": cid, "e": "Overlaps", "t": t, "s": s, "q": q})
    pages = [{"nulls": 1, "hasMin": s["hasMin"], "min": s["min"], "hasMax": s["hasMax"], "max": s["max"], "isNull": False},
             {"nulls": 2, "hasMin": False, "min": [], "hasMax": False, "max": [], "isNull": True}]
    toks.append("I:%d:%d" % (t, tlen))
    toks.append("A:1:%s:%s:0" % (smin, smax))
    toks.append("A:2:~:~:1")
    for q in queries:
        vlen = len(q["min"]) if q["hasMin"] else (len(q["max"]) if q["hasMax"] else 0)
        for pg in (0, 1):
            toks.append("Q:%d:%s:%s:%d" % (pg, opt_hex(q["hasMin"], q["min"]), opt_hex(q["hasMax"], q["max"]), vlen))
            evs.append({"id": cid, "e": "PageMatch", "t": t, "pages": pages, "page": pg, "q": q})
    toks.append("J")
    return " ".join(toks), evs


def helper_fill(evs, toks):
    """copy the recorded statuses / results into the prepared events (pure re-formatting)"""
    outs = [t for t in toks if t[:2] in ("C=", "R=", "Q=")]
    adds = [num(t[2:]) for t in toks if t.startswith("A=")]
    if len(outs) != len(evs):
        return None
    for e, o in zip(evs, outs):
        f = o[2:].split(":")
        e["st"] = num(f[0])
        if e["e"] == "Compare":
            e["r"] = num(f[1]) if len(f) > 1 else 0
        else:
            e["r"] = len(f) > 1 and f[1] == "1"
        if e["e"] == "PageMatch":
            e["adds"] = adds
    return evs


def part_helpers(chk, tier, binary):
    recs = tlc_cases(chk, "MC_StatsHelpers", "CONSTANTS\n Types = {0, 1, 2, 3, 4, 5, 6, 7}\n" + GEN_TAIL, "helper cases")
    lines, prepared, meta = [], {}, {}
    for i, rec in enumerate(recs):
        cid = "h%d" % i
        ln, evs = helper_exec(cid, rec, tier, i)
        lines.append(ln)
        prepared[cid] = evs
        meta[cid] = {"part": "d", "t": rec["t"], "stats": rec["s"], "rec": rec, "idx": i}
    res, faults, leaky = common.run_harness_parallel(binary, lines, nproc=NPROC)
    execs, n = [], 0
    for cid, evs in prepared.items():
        if cid not in res:
            continue
        filled = helper_fill(evs, res[cid])
        if filled is None:
            execs.append([{"id": cid, "e": "Fault", "kind": "harness-output-incomplete"}])
            continue
        execs.append(filled)
        for e in filled:
            n += 1
            chk.count(("d", e["e"], e["t"], e["s"] if "s" in e else e["pages"][e["page"]], e.get("v"), e.get("q")), True)
    execs += fault_execs(faults, leaky)
    if recs:
        r = recs[len(recs) // 2]
        chk.sample({"part": "d", "type": TYPE_NAMES[r["t"]], "stats": r["s"], "values": len(r["vals"]), "query_ranges": len(r["queries"])})
    return execs, meta, dict(records=len(recs), helper_calls=n)


# --------------------------------------------------------------------------------------------
def replay_case(chk, tier, path):
    """Re-execute the single case of a replay file through the same pipeline."""
    with open(path) as fh:
        rep = json.load(fh)["case"]
    if "witnesses" in rep:
        rep = list(rep["witnesses"].values())[0]
    binary = common.build_harness("h_stats")
    part = rep.get("part")
    if part == "a":
        execs, meta, _, _ = wcommon.run_histories(chk, [rep["ops"]], [(rep["codec"], rep["page"])], modes=("f",), with_file=True, nproc=1, label="a")
        execs = [[e for e in ex if e.get("e") in ("Create", "WriteBatch", "NewRowGroup", "Close", "File", "Fault")] for ex in execs]
        meta = {cid: {"part": "a", "ops": o, "codec": c, "page": p} for cid, (o, c, p) in meta.items()}
    elif part == "b":
        ln = builder_line("b0", rep["case"], False)
        res, faults, leaky = common.run_harness_leaks(binary, [ln], leak_every=1)
        execs = [[builder_event("b0", rep["case"], res["b0"])]] if "b0" in res else []
        execs += fault_execs(faults, leaky)
        meta = {"b0": rep}
    elif part == "c":
        fdir = tempfile.mkdtemp(prefix="c16replay-", dir=common.scratch_root())
        try:
            path2 = os.path.join(fdir, "f0.parquet")
            with open(path2, "wb") as fh:
                fh.write(bytes.fromhex(rep["file_hex"]))
            case = {"rgs": rep["rgs"], "cols": rep["cols"], "probes": rep["probes"]}
            ln, queries = file_line("f0", path2, case)
            res, faults, leaky = common.run_harness_leaks(binary, [ln], leak_every=1)
        finally:
            shutil.rmtree(fdir, ignore_errors=True)
        execs = [file_events("f0", case, queries, res["f0"])] if "f0" in res else []
        execs += fault_execs(faults, leaky)
        meta = {"f0": rep}
    elif part == "d":
        ln, evs = helper_exec("h0", rep["rec"], "thorough", rep.get("idx", 0))
        res, faults, leaky = common.run_harness_leaks(binary, [ln], leak_every=1)
        filled = helper_fill(evs, res["h0"]) if "h0" in res else None
        execs = [filled] if filled else []
        execs += fault_execs(faults, leaky)
        meta = {"h0": rep}
    else:
        raise common.InfraError("replay file %s has no replayable case" % path)
    chk.count(("replay", path), True)
    return execs, meta, {"replay": {"file": path, "executions": len(execs)}}


def run(chk, tier, replay):
    chk.assumptions += [
        "Orders: INT32/INT64 signed, BOOLEAN false<true, BYTE_ARRAY/FIXED_LEN_BYTE_ARRAY unsigned lexicographic (prefix first); "
        "FLOAT/DOUBLE: a claim is refuted only if wrong under IEEE order with NaNs exempt AND total order NaN last AND total order NaN first "
        "(-0 = +0 in all three); INT96 (order undefined by the format): bytes lexicographic, 96-bit LE unsigned, 96-bit LE signed",
        "An absent min or max claims nothing; null_count is judged when stated",
        "Pruning ground truth = existence of a stored value for which `v op probe` holds (Stats.Holds), under every admissible order in "
        "which the file's stated statistics are true bounds; findings under some orders only are listed as observations",
        "column_statistics: withholding a stated min/max pair (e.g. zero-length bounds) is conservative and only recorded as an observation",
        "Reference files: TLA+ reference writer (ParquetWrite.SerFile); the generator checks with the TLA+ reference reader that content and statistics are recovered",
        "Helpers take one value_len for both query bounds: BYTE_ARRAY queries with two bounds use bounds of equal length"]
    t0 = time.time()
    sc = None if replay else SelfCheck(tier)
    if sc:
        sc.start()
    binary = common.build_harness("h_stats")
    execs, meta, parts = [], {}, {}
    plan = (("b_builder", lambda: part_builder(chk, tier, binary)),
            ("d_helpers", lambda: part_helpers(chk, tier, binary)),
            ("c_reader", lambda: part_files(chk, tier, binary)),
            ("a_writer", lambda: part_writer(chk, tier)))
    if replay:
        plan = (("replay", lambda: replay_case(chk, tier, replay)),)
    for name, fn in plan:
        t1 = time.time()
        ex, m, info = fn()
        info = info.get("replay", info)
        info["gen_exec_s"] = round(time.time() - t1, 1)
        info["executions"] = len(ex)
        execs += ex
        meta.update(m)
        parts[name] = info
    t1 = time.time()
    # heavy executions (files to parse) first, so that the chunks are balanced
    execs.sort(key=lambda ex: -sum(len(e.get("bytes", ())) + 40 for e in ex))
    inter = [[] for _ in range(NPROC)]
    for i, ex in enumerate(execs):
        inter[i % NPROC].append(ex)
    verdicts, obs, stats, ress = validate([e for ch in inter for e in ch], NPROC)
    for r in ress:
        chk.add_tlc(r)
    chk.cov["traces_validated_against_impl"] += stats.get("execs", 0)
    for name, info in parts.items():
        chk.part(name, **info)
    chk.part("trace", validate_s=round(time.time() - t1, 1), **stats)

    not_mine = {}
    for v in verdicts:
        m = meta.get(v["id"], {})
        for w in sorted(v["why"]):
            if not w.startswith(OWNED):
                not_mine[w] = not_mine.get(w, 0) + 1
                continue
            rep = dict(m)
            rep.update(event=v["e"], why=sorted(v["why"]), detail=v.get("detail"))
            chk.violation("c16:" + w, "%s: event %s of %s judged by StatsTrace: %s %s" % (
                part_name(m), v["e"], v["id"], sorted(v["why"]), short_detail(v, m)), rep)
    if not_mine:
        chk.part("not_judged", **{k.replace(":", "_"): n for k, n in not_mine.items()})
        common.log("C16: executions not judged (other properties' conditions): %s" % not_mine)
    # findings that hold under some admissible orders only
    ocount, refuted = {}, {}
    for o in obs:
        for w in o["what"]:
            ocount[w] = ocount.get(w, 0) + 1
            if w.startswith("prune:false-negative-under:"):
                _, _, order, typ, op = w.split(":")
                refuted.setdefault(typ, {}).setdefault(order, (o["id"], op))
    chk.part("observations", **{k.replace(":", "_"): n for k, n in sorted(ocount.items())})
    for typ, per in refuted.items():
        if set(per) >= {"ieee", "nanlast", "nanfirst"}:
            chk.violation("c16:prune:unsound-under-every-admissible-order:" + typ,
                          "%s pruning has a false negative under each admissible order (different files): %s" % (typ, per),
                          {"part": "c", "witnesses": {o: dict(meta.get(cid, {}), op=op) for o, (cid, op) in per.items()}})
    if sc:
        sc.join_ok(chk)
    chk.part("time", total_s=round(time.time() - t0, 1))
    chk.cov["rule"] = ("evaluations = harness cases judged by StatsTrace: (a) write histories x (codec, page size); (b) builder call sequences "
                       "(every prefix builds); (c) (file, column, operator, probe) queries, each covering all row groups and 4 caps; (d) helper calls. "
                       "distinct = distinct inputs; non-trivial: (a) >1 batch per column or nulls, (b) >= 2 values, (c)/(d) all. "
                       "states/transitions = TLC totals of MC_Stats, the generators and the StatsTrace runs")


def part_name(m):
    return {"a": "writer page statistics", "b": "statistics builder", "c": "reader pruning", "d": "helpers"}.get(m.get("part"), "?")


def short_detail(v, m):
    d = v.get("detail") or {}
    if isinstance(d, dict) and "stats" in d:
        return "row group %s column %s page %s type %s min=%s max=%s values=%s" % (
            d.get("g"), d.get("c"), d.get("page"), d.get("type"), d["stats"].get("min"), d["stats"].get("max"), d.get("vals", [])[:6])
    if m.get("part") == "b":
        return "case %s" % json.dumps(m.get("case"))[:400]
    if m.get("part") == "c":
        return "type %s layout %s mode %s stat-order %s" % (TYPE_NAMES[m["t"]], m["layout"], m["mode"], m["order"])
    if m.get("part") == "d":
        return "type %s stats %s" % (TYPE_NAMES[m["t"]], m.get("stats"))
    return ""
