"""C15 - every SIMD kernel equals its scalar definition at every ISA level.

Deciding method
  * spec/sys/Kernels.tla is the mathematical definition of each kernel over sequences (no alignment,
    no ISA level in it).  TLC runs spec/mc/MC_Kernels.tla and prints, per (kernel, count, pattern),
    the input memory images and the output the definition assigns (pattern seed = VERIF_SEED).
  * harness/h_simd.c replays every case on every exported carquet_{sse,avx2,avx512}_* variant and on the
    carquet_dispatch_* entry point, at a sweep of source/destination misalignments, in buffers fenced by
    PROT_NONE pages, canaries and ASan poison.  It reports the distinct observed results; this module
    compares them with the specification's value and names the deviation.
  * spec/sys/Dispatch.tla (capability set -> table -> call) is model-checked exhaustively by TLC for all
    (host, mask) capability subsets; the table it assigns to each capability set is compared with the real
    function pointers of a fresh process started under hook H1 (CARQUET_VERIF_CPU_CAP), and every case is
    replayed through the dispatcher under every capability mask.
"""
import concurrent.futures
import json
import os
import re
import subprocess
import threading
import time

from vlib import common
from vlib.common import hexs

LEVEL = "exploration"

ALL_KERNELS = ["prefix_sum_i32", "prefix_sum_i64", "gather_i32", "gather_i64", "gather_float", "gather_double",
               "bss_encode_float", "bss_decode_float", "bss_encode_double", "bss_decode_double", "unpack_bools",
               "pack_bools", "find_run_length_i32", "crc32c", "match_copy", "match_length", "count_non_nulls",
               "build_null_bitmap", "fill_def_levels", "memset", "memcpy", "bitunpack"]

# natural alignment (element size) of the buffers of each kernel: (in1, in2, io); 0 = buffer not used
ELEM = {
    "prefix_sum_i32": (0, 0, 4), "prefix_sum_i64": (0, 0, 8),
    "gather_i32": (4, 4, 4), "gather_float": (4, 4, 4), "gather_i64": (8, 4, 8), "gather_double": (8, 4, 8),
    "bss_encode_float": (4, 0, 1), "bss_decode_float": (1, 0, 4), "bss_encode_double": (8, 0, 1), "bss_decode_double": (1, 0, 8),
    "unpack_bools": (1, 0, 1), "pack_bools": (1, 0, 1), "find_run_length_i32": (4, 0, 0), "crc32c": (1, 0, 0),
    "match_copy": (0, 0, 1), "match_length": (1, 1, 0), "count_non_nulls": (2, 0, 0), "build_null_bitmap": (2, 0, 1),
    "fill_def_levels": (0, 0, 2), "memset": (0, 0, 1), "memcpy": (1, 0, 1), "bitunpack": (1, 0, 4),
}
# which variants exist for a kernel (the harness inventory is checked against `nm` of the library)
WIDE = {"prefix_sum_i32", "prefix_sum_i64", "gather_i32", "gather_i64", "gather_float", "gather_double",
        "bss_encode_float", "bss_decode_float", "unpack_bools", "pack_bools", "find_run_length_i32"}
BITUNPACK_VARIANT = {(32, 1): "sse", (8, 4): "sse", (8, 8): "sse", (64, 1): "avx2", (16, 4): "avx2", (16, 8): "avx2",
                     (8, 16): "avx2", (32, 8): "avx512", (16, 16): "avx512", (32, 4): "avx512"}

QUICK_MIS = [0, 1, 3, 4, 7, 8, 15, 16, 31, 32, 33, 63]

# hook H1 mask bits (fields of carquet_cpu_info_t in order)
BITS = {"sse2": 0, "sse41": 1, "sse42": 2, "avx": 3, "avx2": 4, "avx512f": 5, "avx512bw": 6, "avx512vl": 7, "avx512vbmi": 8}
COARSE = {"sse42": 0x007, "avx2": 0x018, "avx512": 0x1E0}
FINE = {"sse42": 0x007, "avx2": 0x018, "avx512f": 0x120, "avx512bw": 0x040, "avx512vl": 0x080}
VARIANT_FEATURE = {"sse": "sse42", "avx2": "avx2", "avx512": "avx512"}

# entries of carquet_simd_dispatch_t (Dispatch.tla `Entries`) -> kernel names used by the case generator
ENTRY_KERNEL = {"byte_split_encode_float": "bss_encode_float", "byte_split_decode_float": "bss_decode_float",
                "byte_split_encode_double": "bss_encode_double", "byte_split_decode_double": "bss_decode_double"}


def _seq(x):
    """Json module prints an empty function as {}."""
    if isinstance(x, dict):
        return [x[k] for k in sorted(x, key=lambda s: int(s))] if x else []
    return x


def subsets(names):
    names = sorted(names)
    for m in range(1 << len(names)):
        yield frozenset(n for i, n in enumerate(names) if (m >> i) & 1)


def mask_value(feats, table):
    v = 0
    for f in feats:
        v |= table[f]
    return v


# --------------------------------------------------------------------------------------------------
# placements
# --------------------------------------------------------------------------------------------------

def _natural(align, tier):
    if align == 0:
        return [0]
    if tier == "thorough":
        return [m for m in range(64) if m % align == 0]
    if align == 1:
        return QUICK_MIS
    if align == 2:
        return [0, 2, 4, 6, 8, 14, 16, 30, 32, 34, 62]
    if align == 4:
        return [0, 4, 8, 12, 16, 28, 32, 36, 60]
    return [0, 8, 16, 24, 32, 40, 56]


def _odd(align):
    if align <= 1:
        return [0, 1, 31]
    return [m for m in (1, 2, 3, 5, 7, 9, 17, 33, 63) if m % align != 0]


def _fmt(s):
    return ",".join(str(v) for v in s)


def placements(kernel, n, tier, light=False):
    """(judged placements, beyond-contract placements or None)."""
    a1, a2, a0 = ELEM[kernel]
    if light or n >= 1000:
        s1 = [m for m in (0, 8, 24, 56) if a1 and m % a1 == 0] or [0]
        s0 = [m for m in (0, 16, 40) if a0 and m % a0 == 0] or [0]
        s2 = [m for m in (0, 4, 36) if a2 and m % a2 == 0] or [0]
        return "E;F;X%s/%s/%s" % (_fmt(s1), _fmt(s2), _fmt(s0)), None
    s1, s2, s0 = _natural(a1, tier), _natural(a2, tier), _natural(a0, tier)
    judged = "E;F;X%s/%s/%s" % (_fmt(s1), _fmt(s2), _fmt(s0))
    odd = None
    if max(a1, a2, a0) > 1:
        odd = "X%s/%s/%s" % (_fmt(_odd(a1) if a1 else [0]), _fmt(_odd(a2) if a2 else [0]), _fmt(_odd(a0) if a0 else [0]))
    return judged, odd


# --------------------------------------------------------------------------------------------------
# cases -> harness lines
# --------------------------------------------------------------------------------------------------

class Case:
    __slots__ = ("k", "n", "p", "sa", "in1", "in2", "z", "io0", "exp", "ret", "alt", "hk", "raw")

    def __init__(self, c):
        self.raw = c
        self.k, self.n, self.p, self.z = c["k"], c["n"], c["p"], c["z"]
        for f in ("sa", "in1", "in2", "io0", "exp", "ret", "alt"):
            setattr(self, f, bytes(_seq(c[f])))
        self.hk = self.k if self.k != "bitunpack" else "bitunpack%d_%dbit" % (self.n, self.sa[0])

    def key(self):
        return (self.hk, self.n, self.p)

    def expected(self):
        ret = self.ret if self.ret else bytes(8)
        return hexs(self.exp), ret.hex()

    def variants(self):
        if self.k == "bitunpack":
            return [BITUNPACK_VARIANT[(self.n, self.sa[0])]]
        if self.k in ("memset", "memcpy"):
            return ["sse", "avx2", "avx512"]
        if self.k in ("bss_encode_double", "bss_decode_double"):
            return ["sse", "avx2", "dispatch"]
        if self.k in WIDE:
            return ["sse", "avx2", "avx512", "dispatch"]
        return ["sse", "dispatch"]

    def line(self, cid, variants, plc):
        if self.z == "given":
            io0, outlen = self.io0, len(self.io0)
        elif self.z == "none":
            io0, outlen = b"", 0
        elif self.z == "zero":
            io0, outlen = b"", len(self.exp)
        else:   # junk: anything, chosen to differ from the expected byte everywhere
            io0, outlen = bytes((b + 0x5B) & 0xFF for b in self.exp), len(self.exp)
        return " ".join([cid, "run", self.hk, str(self.n), hexs(self.sa), hexs(self.in1), hexs(self.in2), self.z,
                         hexs(io0), str(outlen), ",".join(variants), plc])


_re_calls = re.compile(r"calls=(\d+)")


def parse_result(toks):
    """-> {variant: {"calls": n, "results": [(count, label, io, ret)], "nr": n, "faults": [(label, kind)], "nf": n}}"""
    out, cur, i = {}, None, 0
    while i < len(toks):
        t = toks[i]
        if t == "V":
            cur = {"calls": 0, "results": [], "nr": 0, "faults": [], "nf": 0, "missing": False}
            out[toks[i + 1]] = cur
            i += 2
        elif t.startswith("calls=") and cur is not None:
            cur["calls"] = int(t[6:]); i += 1
        elif t.startswith("nr=") and cur is not None:
            cur["nr"] = int(t[3:]); i += 1
        elif t.startswith("nf=") and cur is not None:
            cur["nf"] = int(t[3:]); i += 1
        elif t == "R" and cur is not None:
            cur["results"].append((int(toks[i + 1]), toks[i + 2], toks[i + 3], toks[i + 4])); i += 5
        elif t == "F" and cur is not None:
            cur["faults"].append((toks[i + 1], toks[i + 2])); i += 3
        elif t == "NOVARIANT" and cur is not None:
            cur["missing"] = True; i += 1
        else:
            i += 1
    return out


# --------------------------------------------------------------------------------------------------
# running the harness in parallel
# --------------------------------------------------------------------------------------------------

HARNESS_ENV = {"ASAN_OPTIONS": common.ASAN_ENV["ASAN_OPTIONS"] + ":allow_user_segv_handler=1"}
MAX_FAULTS = 60          # crashes (ASan aborts) tolerated per run before the remaining lines are skipped
_crashes = {}             # harness binary -> crashes so far


def run_lines(binary, lines, env=None, chunk=60, workers=None):
    """Split the lines over parallel harness processes. Returns (results, faults, truncated).
    A crash costs a process restart; after MAX_FAULTS crashes in the whole run the rest is skipped
    (the crashes seen so far are violations already)."""
    e = dict(HARNESS_ENV)
    if env:
        e.update(env)
    chunks = [lines[i:i + chunk] for i in range(0, len(lines), chunk)]
    results, faults = {}, []

    def work(ch):
        if _crashes.get(binary, 0) > MAX_FAULTS:
            return {}, []
        r, f = common.run_harness(binary, ch, env=e)
        if f:
            _crashes[binary] = _crashes.get(binary, 0) + len(f)
        return r, f

    with concurrent.futures.ThreadPoolExecutor(max_workers=workers or common.NCPU) as ex:
        for r, f in ex.map(work, chunks):
            results.update(r)
            faults.extend(f)
    return results, faults, _crashes.get(binary, 0) > MAX_FAULTS


def symbols(binary):
    r = subprocess.run(["nm", "--defined-only", binary], stdout=subprocess.PIPE, text=True)
    by_name, by_addr = {}, {}
    for ln in r.stdout.splitlines():
        parts = ln.split()
        if len(parts) != 3:
            continue
        addr, typ, name = int(parts[0], 16), parts[1], parts[2]
        by_name.setdefault(name, []).append((addr, typ))
        if typ in "tT":
            by_addr.setdefault(addr, name)
    return by_name, by_addr


def lib_inventory(bdir):
    r = subprocess.run(["nm", "--defined-only", os.path.join(bdir, "libcarquet.a")], stdout=subprocess.PIPE, text=True)
    names = set()
    for ln in r.stdout.splitlines():
        parts = ln.split()
        if len(parts) == 3 and parts[1] == "T" and re.match(r"carquet_(sse|avx2|avx512|dispatch)_", parts[2]):
            names.add(parts[2])
    return names


def level_of(fname):
    if fname.startswith("scalar_"):
        return "scalar", fname[len("scalar_"):]
    m = re.match(r"carquet_(sse|avx2|avx512)_(.*)$", fname)
    if m:
        return m.group(1), m.group(2).replace("byte_stream_split", "byte_split")
    return "?", fname


def read_table(binary, delta, by_addr, anchor, maskval):
    env = {} if maskval is None else {"CARQUET_VERIF_CPU_CAP": hex(maskval)}
    e = dict(HARNESS_ENV)
    e.update(env)
    res, faults = common.run_harness(binary, ["c caps", "t table %d" % delta], env=e)
    if "c" not in res or "t" not in res:
        raise common.InfraError("harness could not report caps/table under mask %s" % maskval)
    host = res["c"][0].split("=")[1]
    cpu = res["c"][1].split("=")[1]
    fns = []
    for off in res["t"][:19]:
        fns.append(by_addr.get(anchor + int(off), "?%s" % off))
    return host, cpu, fns


# --------------------------------------------------------------------------------------------------
# judging
# --------------------------------------------------------------------------------------------------

def classify_value(case, io, ret):
    eio, eret = case.expected()
    if case.k == "crc32c" and case.alt and ret == case.alt.hex():
        return "missing-pre-post-inversion"
    if io != eio and ret != eret:
        return "output-and-return-value"
    if io != eio:
        return "output-value"
    return "return-value"


def classify_fault(case, kind):
    parts = kind.split(":")
    if parts[0] == "segv" and len(parts) >= 3:
        reg = parts[1]
        try:
            off = int(parts[2])
        except ValueError:
            off = 0
        size = {"in1": len(case.in1), "in2": len(case.in2), "io": len(case.exp) if case.z != "given" else len(case.io0)}.get(reg, 0)
        if reg in ("in1", "in2"):
            return "read-past-%s" % reg if off >= size else ("read-before-%s" % reg if off < 0 else "fault-inside-%s" % reg)
        if reg == "io":
            return "access-past-output" if off >= size else ("access-before-output" if off < 0 else "fault-inside-output")
        return "segv-elsewhere"
    return parts[0] if parts[0] != "input-modified" and parts[0] != "write-near-input" else parts[0] + ":" + parts[1]


class Judge:
    def __init__(self, chk):
        self.chk = chk
        self.calls = {}
        self.pairs = 0
        self.anomalies = []

    def judge(self, case, res, who, judged=True, selected=None):
        """res = parse_result(...) of one harness line. `who` maps the variant name to the label used in
        signatures (for the dispatcher: the function the table selected under the mask)."""
        eio, eret = case.expected()
        for variant, r in res.items():
            name = who.get(variant, variant)
            self.calls[name if variant != "dispatch" else "dispatch"] = self.calls.get(name if variant != "dispatch" else "dispatch", 0) + r["calls"]
            self.pairs += 1
            bad = []
            for count, label, io, ret in r["results"]:
                if (io, ret) != (eio, eret):
                    bad.append(("%s:%s:%s" % (name, case.hk, classify_value(case, io, ret)),
                                "%s on %s n=%d pattern=%d at %s (%d placements): expected out=%s ret=%s, got out=%s ret=%s" % (
                                    name, case.hk, case.n, case.p, label, count, eio[:160], eret, io[:160], ret),
                                {"label": label, "got_io": io, "got_ret": ret}))
            if r["nr"] > len(r["results"]):
                bad.append(("%s:%s:unstable-output" % (name, case.hk),
                            "%s on %s n=%d: %d distinct results over the placements" % (name, case.hk, case.n, r["nr"]), {}))
            for label, kind in r["faults"]:
                bad.append(("%s:%s:%s" % (name, case.hk, classify_fault(case, kind)),
                            "%s on %s n=%d pattern=%d at %s: %s (%d faults in this case)" % (name, case.hk, case.n, case.p, label, kind, r["nf"]),
                            {"label": label, "fault": kind}))
            for sig, what, extra in bad:
                rep = {"case": case.raw, "variant": variant, "as": name, "expected_io": eio, "expected_ret": eret}
                rep.update(extra)
                if judged:
                    self.chk.violation(sig, what, rep)
                elif len(self.anomalies) < 20:
                    self.anomalies.append(what[:300])
            if not judged and bad:
                self.chk.part("beyond_contract_alignment", anomalies=len(self.anomalies))


# --------------------------------------------------------------------------------------------------
# the check
# --------------------------------------------------------------------------------------------------

def gen_cfg(tier, kernels=None):
    ks = "{" + ", ".join('"%s"' % k for k in (kernels or ALL_KERNELS)) + "}"
    sd = common.seed() % 32749
    if tier == "quick":
        c = dict(MaxElem=67, MaxBool=131, MaxByte=67, MaxMem=515, Large="{1000, 1027}", Huge="{524296}", NRand=2, FullRun=36)
    else:
        c = dict(MaxElem=131, MaxBool=259, MaxByte=131, MaxMem=515, Large="{1000, 1027, 4099}", Huge="{524288, 524296, 786440}", NRand=4, FullRun=70)
    txt = "CONSTANTS\n  Seed = %d\n  KernelSet = %s\n" % (sd, ks)
    txt += "".join("  %s = %s\n" % kv for kv in c.items())
    txt += "INIT Init\nNEXT Next\nINVARIANT Emit\nCHECK_DEADLOCK FALSE\n"
    return txt


def dispatch_cfg(features, guard, invariants):
    return ("CONSTANTS\n  Features <- %s\n  Guard <- %s\n  Needs <- %s\nINIT Init\nNEXT Next\nINVARIANTS %s\n"
            "PROPERTIES OverrideOrder FrozenAfterInit\nCHECK_DEADLOCK FALSE\n" % (
                features, guard, "NeedsCoarse" if "Coarse" in features else "NeedsFine", invariants))


def spec_table_for(cases, host, mask):
    for c in cases:
        if frozenset(_seq(c["host"])) == host and frozenset(_seq(c["mask"])) == mask:
            return c
    return None


def run(chk, tier, replay):
    _crashes.clear()
    bdir = common.build_lib("asan")
    binary = common.build_harness("h_simd")
    chk.assumptions += [
        "TLC; the TLA+ definitions in Kernels.tla (self-checked on published vectors and algebraic identities in MC_Kernels SelfCheck)",
        "typed pointers are exercised at every address that is a multiple of the element size (natural alignment); "
        "smaller misalignments are executed too but reported as information only (outside the C contract of the parameter type)",
        "an over-read is observed by PROT_NONE pages (every buffer ends at one in placement E) and by ASan poison at every "
        "other placement; an over-write by canaries and the same pages",
        "AVX-512 is treated as one capability (F+BW+VL) in the replayed capability masks; the finer model is checked on the "
        "dispatch table only",
    ]

    # ---- 0. specifications: self-check, case generation, dispatcher models (in parallel JVMs) ----
    jobs = {}
    with concurrent.futures.ThreadPoolExecutor(max_workers=5) as ex:
        jobs["self"] = ex.submit(common.run_tlc, "MC_Kernels", cfg="MC_KernelsSelf", workers=1, want_cases=False)
        if replay is None:
            jobs["cases"] = ex.submit(common.run_tlc, "MC_Kernels", constants_text=gen_cfg(tier), timeout=3000,
                                      workers=max(4, common.NCPU - 4))
        jobs["coarse"] = ex.submit(common.run_tlc, "MC_Dispatch", workers=2, constants_text=dispatch_cfg(
            "FeaturesCoarse", "GuardCoarse", "TypeOK CapsSound TableBest NoUnsetCall CallBest Emit"))
        jobs["fine_emit"] = ex.submit(common.run_tlc, "MC_Dispatch", workers=2, constants_text=dispatch_cfg(
            "FeaturesFine", "GuardFine", "TypeOK CapsSound NoUnsetCall Emit"))
    tl = {k: f.result() for k, f in jobs.items()}
    common.log("specifications: " + ", ".join("%s %.1fs" % (k, v.wall) for k, v in tl.items()))
    t_phase = time.time()
    r = common.tlc_ok(tl["self"], "MC_Kernels self-check")
    if r.violated:
        raise common.InfraError("kernel definitions failed their self-check: " + r.violated)
    chk.add_tlc(r)
    rc = common.tlc_ok(tl["coarse"], "MC_Dispatch (coarse)")
    if rc.violated:
        raise common.InfraError("Dispatch.tla violates %s in the coarse model (specification error)" % rc.violated)
    chk.add_tlc(rc)
    common.tlc_ok(tl["fine_emit"], "MC_Dispatch (fine, emit)")
    chk.add_tlc(tl["fine_emit"])
    chk.part("dispatch_model", coarse_states=rc.distinct, coarse_capability_pairs=len(rc.cases),
             fine_states=tl["fine_emit"].distinct, fine_capability_pairs=len(tl["fine_emit"].cases),
             invariants="TypeOK CapsSound TableBest NoUnsetCall CallBest OverrideOrder FrozenAfterInit")

    report_tables = True
    if replay is not None:
        with open(replay) as fh:
            obj = json.load(fh)
        c = obj.get("case", obj)
        c = c.get("case", c)
        if not isinstance(c, dict) or "k" not in c:
            log_replay_table(chk, obj)
            cases = []
        else:
            cases = [Case(c)]
            report_tables = False        # replaying a kernel case: the tables are only read to name the selected function
    else:
        rg = common.tlc_ok(tl["cases"], "MC_Kernels case generation")
        if rg.violated:
            raise common.InfraError("case generator stopped: %s\n%s" % (rg.violated, rg.out[-1500:]))
        chk.add_tlc(rg)
        cases = [Case(c) for c in rg.cases]
        cases.sort(key=lambda c: c.key())
        if len(cases) < 1000:
            raise common.InfraError("case generator produced only %d cases" % len(cases))
        chk.part("case_generation", cases=len(cases), tlc_states=rg.distinct, seed=common.seed() % 32749)

    # ---- 1. inventory: everything the library exports is covered by the harness ----
    res, _, _ = run_lines(binary, ["i inventory", "c caps"], workers=1)
    have = set(res.get("i", []))
    exported = lib_inventory(bdir)
    missing = sorted(exported - have)
    gone = sorted(have - exported)
    if missing or gone:
        raise common.InfraError("kernel inventory changed: not covered by the harness %s / no longer exported %s" % (missing, gone))
    host_bits = res["c"][0].split("=")[1]
    hostf = {f for f, b in BITS.items() if host_bits[b] == "1"}
    host_coarse = frozenset(f for f, m in COARSE.items() if all(host_bits[b] == "1" for b in range(9) if (m >> b) & 1 and b != 8))
    host_fine = frozenset(f for f, m in FINE.items() if all(host_bits[b] == "1" for b in range(9) if (m >> b) & 1 and b != 8))
    avail = [v for v in ("sse", "avx2", "avx512") if VARIANT_FEATURE[v] in host_coarse]
    chk.part("inventory", exported_functions=len(exported), covered=len(have & exported), host_features=sorted(hostf),
             variants_runnable_on_host=avail,
             note=("host CPU lacks: %s - those variants were not executed" % sorted(set(COARSE) - host_coarse)) if len(host_coarse) < 3 else "host runs all three ISA variants")

    by_name, by_addr = symbols(binary)
    if len(by_name.get("g_dispatch", [])) != 1 or "carquet_simd_dispatch_init" not in by_name:
        raise common.InfraError("cannot locate g_dispatch / carquet_simd_dispatch_init in the harness binary")
    anchor = by_name["carquet_simd_dispatch_init"][0][0]
    delta = by_name["g_dispatch"][0][0] - anchor

    judge = Judge(chk)
    common.log("inventory %.1fs" % (time.time() - t_phase)); t_phase = time.time()

    # ---- 2. dispatch table per capability set (function pointers) ----
    entries = _seq(rc.cases[0]["entries"])
    tables = {}

    def check_table(feats, bittable, spec_cases, hostset, kind):
        mv = mask_value(feats, bittable)
        if kind == "fine" and "avx512f" in feats:
            mv |= 0x100
        host, cpu, fns = read_table(binary, delta, by_addr, anchor, mv)
        # hook sanity: reported = host AND mask
        for f, b in BITS.items():
            want = "1" if (host[b] == "1" and (mv >> b) & 1) else "0"
            if cpu[b] != want:
                raise common.InfraError("hook H1 (CARQUET_VERIF_CPU_CAP in src/simd/detect.c) missing or ineffective: feature %s "
                                        "reported %s under mask %#x on host %s" % (f, cpu[b], mv, host))
        spec = spec_table_for(spec_cases, hostset, frozenset(feats))
        if spec is None:
            raise common.InfraError("Dispatch model has no table for host=%s mask=%s" % (sorted(hostset), sorted(feats)))
        best, model = _seq(spec["best"]), _seq(spec["table"])
        real = []
        for i, fn in enumerate(fns):
            lvl, kname = level_of(fn)
            if kname != entries[i]:
                raise common.InfraError("entry %d (%s) of g_dispatch points to %s: struct layout differs from Dispatch.tla Entries" % (i, entries[i], fn))
            real.append(lvl)
        return mv, fns, real, best, model, _seq(spec["caps"])

    ntab = 0
    for feats in subsets(COARSE):
        mv, fns, real, best, model, caps = check_table(feats, COARSE, rc.cases, host_coarse, "coarse")
        tables[feats] = fns
        ntab += 1
        for i, e in enumerate(entries):
            if real[i] != best[i]:
                chk.violation("dispatch:table:%s:%s-instead-of-%s" % (e, real[i], best[i]),
                              "capability set %s (mask %#x): g_dispatch.%s = %s, the highest-priority available variant is %s" % (
                                  sorted(caps), mv, e, fns[i], best[i]),
                              {"mask": mv, "caps": sorted(caps), "entry": e, "real": fns[i], "best": best[i], "table": fns})
    chk.sample({"capability_set": sorted(host_coarse), "g_dispatch": tables[frozenset(host_coarse & set(COARSE))] if host_coarse else []})

    fine_rows, drift, fine_bad = 0, 0, []
    for feats in subsets(FINE):
        mv, fns, real, best, model, caps = check_table(feats, FINE, tl["fine_emit"].cases, host_fine, "fine")
        fine_rows += 1
        if real != model:
            drift += 1
        for i, e in enumerate(entries):
            if real[i] != best[i]:
                if real[i] == "avx512" and not {"avx512bw", "avx512vl"} <= set(caps):
                    fine_bad.append((sorted(caps), mv, e, fns[i], best[i]))
                else:
                    chk.violation("dispatch:table:%s:%s-instead-of-%s" % (e, real[i], best[i]),
                                  "capability set %s (mask %#x): g_dispatch.%s = %s, the highest-priority available variant is %s" % (
                                      sorted(caps), mv, e, fns[i], best[i]),
                                  {"mask": mv, "caps": sorted(caps), "entry": e, "real": fns[i], "best": best[i], "table": fns})
    # Which guard does the implementation use? The model of the guard that reproduces the observed tables is
    # model-checked against TableBest (in the background while the kernels are replayed).
    guard_model = "GuardFine" if drift == 0 else "NeedsFine"
    bg = concurrent.futures.ThreadPoolExecutor(max_workers=1)
    fine_job = bg.submit(common.run_tlc, "MC_Dispatch", workers=2, constants_text=dispatch_cfg(
        "FeaturesFine", guard_model, "TypeOK CapsSound NoUnsetCall TableBest CallBest" + (" Emit" if drift else "")))

    def finish_fine():
        fr = fine_job.result()
        bg.shutdown()
        if fr.error or fr.rc not in (0, 12):
            raise common.InfraError("MC_Dispatch (fine, %s) failed\n%s" % (guard_model, fr.out[-2000:]))
        chk.add_tlc(fr)
        same = fine_rows - drift
        if drift:
            same = 0
            for feats in subsets(FINE):
                sm = spec_table_for(fr.cases, host_fine, frozenset(feats))
                host, cpu, fns = read_table(binary, delta, by_addr, anchor, mask_value(feats, FINE) | (0x100 if "avx512f" in feats else 0))
                if sm is not None and [level_of(f)[0] for f in fns] == _seq(sm["table"]):
                    same += 1
        chk.part("dispatch_tables", coarse_capability_sets_checked=ntab, fine_capability_sets_checked=fine_rows,
                 fine_guard_model=("has_avx512f only (as in dispatch.c)" if guard_model == "GuardFine" else "avx512f+bw+vl"),
                 fine_rows_equal_to_that_model=same,
                 tlc_fine_model_TableBest=("violated" if fr.violated else "holds"), tlc_fine_states=fr.distinct)
        return fr

    if not report_tables:
        chk.violations = [v for v in chk.violations if not v[0].startswith("dispatch:")]
        fine_bad = []
    if fine_bad:
        fr = finish_fine()
        caps, mv, e, fn, best = fine_bad[0]
        trace = fr.out[-1800:] if fr.violated else ""
        chk.violation("dispatch:avx512-kernel-selected-without-bw-vl",
                      "capability set %s (mask %#x): g_dispatch.%s = %s although avx512_ops.c is compiled with -mavx512f -mavx512bw "
                      "-mavx512vl and the set lacks BW/VL; best available is %s (%d (capability set, entry) pairs; TLC: TableBest %s in the "
                      "model of the guard that reproduces the observed tables)" % (caps, mv, e, fn, best, len(fine_bad),
                                                                                   "violated" if fr.violated else "holds"),
                      {"mask": mv, "caps": caps, "entry": e, "real": fn, "best": best, "pairs": len(fine_bad), "tlc_trace": trace})

    common.log("dispatch tables %.1fs" % (time.time() - t_phase)); t_phase = time.time()
    # ---- 3. direct variants + dispatcher on the unmasked host ----
    def lines_for(cs, variants_of, prefix, light=False):
        lines, meta = [], {}
        for i, c in enumerate(cs):
            vs = variants_of(c)
            if not vs:
                continue
            judged, odd = placements(c.k, c.n, tier, light)
            cid = "%s%d" % (prefix, i)
            lines.append(c.line(cid, vs, judged)); meta[cid] = (c, True)
            if odd and not light:
                cid = "%s%du" % (prefix, i)
                lines.append(c.line(cid, vs, odd)); meta[cid] = (c, False)
        return lines, meta

    def replay_all(lines, meta, env, who):
        res, faults, trunc = run_lines(binary, lines, env=env)
        for cid, (c, judged) in meta.items():
            toks = res.get(cid)
            if toks is None:
                continue
            judge.judge(c, parse_result(toks), who(c), judged)
        for f in faults:
            c, judged = meta.get(f.case_id, (None, True))
            if c is None:
                raise common.InfraError("harness fault outside a case: %s %s" % (f.signature(), getattr(f, "stderr", "")[-800:]))
            fn = f.detail.split("@")[0]
            sig = "%s:%s:asan-%s" % (fn if fn.startswith("carquet_") else "harness", c.hk, f.kind)
            what = "%s on %s n=%d pattern=%d: %s" % (f.signature(), c.hk, c.n, c.p, getattr(f, "stderr", "")[:1500])
            if judged:
                chk.violation(sig, what, {"case": c.raw, "asan": getattr(f, "stderr", "")[:3000]})
            elif len(judge.anomalies) < 20:
                judge.anomalies.append(what[:300])
        if trunc:
            chk.part("harness", note="remaining cases skipped after more than %d crashes (each crash is reported)" % MAX_FAULTS)
        return len(res)

    full = frozenset(host_coarse)
    full_table = tables[full]

    def sel(c, table):
        e = {v: k for k, v in ENTRY_KERNEL.items()}.get(c.k, c.k)
        return "dispatch->" + table[entries.index(e)] if e in entries else "dispatch"

    lines, meta = lines_for(cases, lambda c: [v for v in c.variants() if v == "dispatch" or v in avail], "d")
    n = replay_all(lines, meta, None, lambda c: {"sse": "carquet_sse", "avx2": "carquet_avx2", "avx512": "carquet_avx512",
                                                  "dispatch": sel(c, full_table)})
    chk.part("direct_variants", harness_lines=n)
    common.log("direct variants %.1fs" % (time.time() - t_phase)); t_phase = time.time()

    # ---- 4. dispatcher under every capability mask (fresh process per mask, hook H1) ----
    nmask = 0
    for feats in subsets(COARSE):
        if replay is not None and False:
            break
        mv = mask_value(feats, COARSE)
        table = tables[feats]
        lines, meta = lines_for(cases, lambda c: ["dispatch"] if "dispatch" in c.variants() else [], "m%x_" % mv,
                                light=(tier == "quick"))
        nmask += replay_all(lines, meta, {"CARQUET_VERIF_CPU_CAP": hex(mv)}, lambda c: {"dispatch": sel(c, table)})
    chk.part("dispatcher_masks", masks=8, harness_lines=nmask)
    common.log("dispatcher masks %.1fs" % (time.time() - t_phase)); t_phase = time.time()

    # ---- 5. the same cases on the optimised build (-O2, no sanitizer): fences and canaries only ----
    binary_asan = binary
    binary = common.build_harness("h_simd", variant="plain")
    lines, meta = lines_for(cases, lambda c: [v for v in c.variants() if v == "dispatch" or v in avail], "o", light=(tier == "quick"))
    before = dict(judge.calls)
    n = replay_all(lines, meta, None, lambda c: {"sse": "carquet_sse[O2]", "avx2": "carquet_avx2[O2]", "avx512": "carquet_avx512[O2]",
                                                  "dispatch": sel(c, full_table) + "[O2]"})
    chk.part("optimised_build", harness_lines=n, flags=common.PLAIN_FLAGS)
    binary = binary_asan
    common.log("optimised build %.1fs" % (time.time() - t_phase)); t_phase = time.time()

    if not fine_bad:
        fr = finish_fine()
        if fr.violated:
            raise common.InfraError("fine Dispatch model violates %s although the observed tables are the best ones" % fr.violated)

    # ---- evidence ----
    for c in cases:
        chk.count(("c15",) + c.key(), c.n > 0)
    for i, c in enumerate(cases):
        if i % max(1, len(cases) // 5) == 3:
            chk.sample({"kernel": c.hk, "n": c.n, "pattern": c.p, "in1": hexs(c.in1)[:64], "expected_out": hexs(c.exp)[:64],
                        "expected_ret": c.expected()[1]})
    total_calls = sum(judge.calls.values())
    chk.cov["evaluations"] = total_calls
    chk.cov["traces_validated_against_impl"] += judge.pairs
    chk.part("calls", **{k: v for k, v in sorted(judge.calls.items())})
    if judge.anomalies:
        chk.part("beyond_contract_alignment", anomalies=len(judge.anomalies), first=judge.anomalies[:3])
    chk.cov["rule"] = ("evaluations = kernel calls executed on the implementation (case x variant x placement); "
                       "distinct_nontrivial = distinct (kernel, count, pattern) cases with count > 0 whose expected result was computed "
                       "by Kernels.tla; every case is executed on each ISA variant the host supports, through the dispatcher unmasked and "
                       "under all 8 capability masks; placements = E (all buffers end at a PROT_NONE page), F (start after one) and the "
                       "cross product of naturally aligned source x destination addresses mod 64 (%s)" % (
                           "all of them" if tier == "thorough" else "subset 0,1,3,4,7,8,15,16,31,32,33,63 / element-size multiples"))


def log_replay_table(chk, obj):
    common.log("replay object is a dispatch-table finding; the table checks are re-run in full: %s" % obj.get("signature"))
