"""C20 - Bloom filters follow the Parquet SBBF algorithm, XXH64 equals the reference.

Deciding method: TLC model-checks BloomSys (no false negatives, size rounding, fresh filter empty,
merge = union on the spec) and emits every reachable history with the exact filter bytes and probe
answers the specification assigns; the histories are replayed on carquet's bloom filter API and the
bytes / answers compared. XXH64: MC_HashCases emits (input, seed, hash) for every length; replayed
on carquet_xxhash64 at several alignments.
"""
from vlib import common
from vlib.common import hexs

LEVEL = "model_checking"


def bloom_lines(cases):
    lines, exp = [], {}
    for i, c in enumerate(cases):
        cid = "b%d" % i
        toks = [cid, "bloom", str(c["req"])]
        for op in c["ops"]:
            if op["op"] in ("IA", "IB"):
                toks.append("%s:%s:%s" % (op["op"], op["t"], hexs(op["b"])))
            else:
                toks.append(op["op"])
        probes = list(c["probes"].values()) if isinstance(c["probes"], dict) else c["probes"]
        ans = ""
        for p in probes:
            toks.append("P:%s:%s" % (p["t"], hexs(p["b"])))
            ans += ("1" if p["a"] else "0") + ("1" if p["bb"] else "0")
        lines.append(" ".join(toks))
        exp[cid] = (str(len(c["fa"])), hexs(c["fa"]), hexs(c["fb"]), ans or "-")
    return lines, exp


def classify_bloom(case, got, exp):
    """Name the way the implementation deviates (used as the violation signature)."""
    if got[0] != exp[0]:
        return "bloom:size-rounding"
    if got[1] != exp[1] or got[2] != exp[2]:
        # bits differ: wrong block or wrong bits inside the block?
        def blocks(h):
            b = bytes.fromhex(h) if h != "-" else b""
            return [i for i in range(len(b) // 32) if any(b[32 * i:32 * i + 32])]
        def pattern(h):
            b = bytes.fromhex(h) if h != "-" else b""
            return sorted(b[32 * i:32 * i + 32] for i in range(len(b) // 32) if any(b[32 * i:32 * i + 32]))
        only_inserts = all(op["op"] in ("IA", "IB") for op in case["ops"])
        if only_inserts and pattern(got[1]) == pattern(exp[1]) and pattern(got[2]) == pattern(exp[2]):
            return "bloom:block-index"
        return "bloom:filter-bytes"
    return "bloom:probe-answer"


def run(chk, tier, replay):
    binary = common.build_harness("h_util")
    chk.assumptions += ["TLA+ XXH64/CRC/Bloom transcriptions validated against published vectors (MC_LibSelf)",
                        "TLC 2.x; harness copies bytes in/out only"]
    # 0. spec self-check
    r = common.tlc_ok(common.run_tlc("MC_LibSelf", workers=1, want_cases=False), "MC_LibSelf")
    if r.violated:
        raise common.InfraError("library self-check failed: " + r.violated)
    chk.add_tlc(r)

    # 1. Bloom state machine
    cfg = "MC_Bloom_quick" if tier == "quick" else "MC_Bloom_thorough"
    r = common.run_tlc("MC_Bloom", cfg=cfg, timeout=3000)
    if r.violated or r.rc != 0:
        if r.rc in (12, 13) or r.violated:
            chk.violation("bloom-spec:" + str(r.violated), "TLC found the Bloom design violates " + str(r.violated), r.out[-2000:])
        else:
            raise common.InfraError("MC_Bloom failed\n" + r.out[-2000:])
    chk.add_tlc(r)
    # the typed entry points on every value token of the catalogue (short histories)
    rt = common.tlc_ok(common.run_tlc("MC_Bloom", cfg="MC_Bloom_typed", timeout=3000), "MC_Bloom typed")
    chk.add_tlc(rt)
    cases = r.cases + rt.cases
    lines, exp = bloom_lines(cases)
    res, faults, leaky = common.run_harness_leaks(binary, lines)
    for cid in leaky:
        chk.violation("bloom:leak", "leak after bloom history", cases[int(cid[1:])])
    nhist = 0
    for i, c in enumerate(cases):
        cid = "b%d" % i
        nontrivial = len(c["ops"]) >= 1
        chk.count(("bloom", c["req"], c["ops"]), nontrivial)
        if i % 997 == 0:
            chk.sample({"req": c["req"], "ops": c["ops"], "expect_fa_hex": hexs(c["fa"])[:128]})
        got = res.get(cid)
        if got is None:
            continue
        nhist += 1
        if tuple(got[:4]) != exp[cid]:
            sig = classify_bloom(c, got, exp[cid])
            chk.violation(sig, "bloom history %s: expected size/bytes/probes %s got %s" % (
                c["ops"], [e[:96] for e in exp[cid]], [g[:96] for g in got[:4]]), c)
    for f in faults:
        chk.violation("bloom:%s" % f.signature(), "fault in bloom case %s: %s" % (f.case_id, f.signature()), getattr(f, "stderr", ""))
    chk.part("bloom", histories_replayed=nhist, tlc_states=r.distinct)
    chk.cov["traces_validated_against_impl"] += nhist

    # 2. XXH64
    maxlen = 100 if tier == "quick" else 300
    pats = "{0, 2, 3}" if tier == "quick" else "{0, 1, 2, 3, 4, 5}"
    cfgt = ('CONSTANTS\n MaxLen = %d\n Patterns = %s\n Kind = "xxh"\n BigLens = {}\nINIT Init\nNEXT Next\n'
            'INVARIANT Emit\nCHECK_DEADLOCK FALSE\n' % (maxlen, pats))
    r = common.tlc_ok(common.run_tlc("MC_HashCases", constants_text=cfgt, timeout=3000), "MC_HashCases xxh")
    chk.add_tlc(r)
    lines, exp = [], {}
    k = 0
    for c in r.cases:
        for mis in ((0, 1, 7) if tier == "quick" else (0, 1, 2, 3, 4, 5, 6, 7, 8, 15)):
            cid = "x%d" % k
            k += 1
            lines.append("%s xxh %s %s %d" % (cid, hexs(c["seed"]), hexs(c["d"]), mis))
            exp[cid] = (hexs(c["h"]), c)
    res, faults, leaky = common.run_harness_leaks(binary, lines)
    for cid in leaky:
        chk.violation("xxh:leak", "leak in xxhash64", exp[cid][1])
    for cid, (h, c) in exp.items():
        chk.count(("xxh", c["d"], c["seed"]), len(c["d"]) > 0)
        got = res.get(cid)
        if got is None:
            continue
        if got[0] != h:
            n = len(c["d"])
            cls = "ge32" if n >= 32 else ("tail8" if n >= 8 else ("tail4" if n >= 4 else "tail1"))
            chk.violation("xxh:value:" + cls, "XXH64 mismatch len=%d seed=%s expected %s got %s" % (n, c["seed"], h, got[0]), c)
    if r.cases:
        c = r.cases[len(r.cases) // 2]
        chk.sample({"xxh_input": c["d"], "seed": c["seed"], "expected": c["h"]})
    for f in faults:
        chk.violation("xxh:%s" % f.signature(), "fault in xxh case", getattr(f, "stderr", ""))
    chk.part("xxh64", cases=len(exp), tlc_states=r.distinct)
    chk.cov["traces_validated_against_impl"] += len(res)
    chk.cov["rule"] = ("Bloom: every reachable history of BloomSys (sizes x typed values x {insert A/B, merge, reload}, "
                       "depth bound MaxOps) replayed, distinct = distinct (size, history) with >= 1 op; "
                       "XXH64: every length 0..MaxLen x patterns x 5 seeds (x alignments, not counted as distinct), "
                       "non-trivial = non-empty input")
