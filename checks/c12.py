"""C12 - encoded bytes follow the Parquet encoding specifications (both directions).

The independent reader / writer is the TLA+ transcription of Encodings.md under spec/fmt
(Hybrid, BitPack, Plain, DeltaBP, DeltaLen, DeltaStr, Bss, DictEnc), executed by TLC.

 (a) carquet -> specification (trace validation): TLC generates value sequences, the harness runs
     carquet's encoders and records one ndjson event per stream (values in, bytes out); MC_EncTrace
     reads the events and accepts one iff the format module parses the bytes to exactly the values
     and the parse ends at the end of the bytes.
 (b) specification -> carquet: TLC serialises value sequences with the format modules over the
     alternative legal encodings (mixed / multi-group / zero-length runs, padded final groups, wider
     than minimal and 33..64-bit DELTA widths bit-packed, arbitrary width bytes of unused
     miniblocks, shorter-than-possible string prefixes) and carquet's decoders must return the
     values. Every such case carries TLC's own Parse(Ser(x)) = x verdict; a case whose oracle
     self-check fails is an infrastructure error, never a violation.
"""
from vlib import common
from vlib.common import hexs, InfraError
from checks import enc_lib as E

LEVEL = "model_checking"

import time as _time
_t0 = [_time.time()]


def T(what):
    now = _time.time()
    common.log("  stage %-28s %.1fs" % (what, now - _t0[0]))
    _t0[0] = now
ALL_STREAMS = list(range(1, 16))


def hyb_dec_lines(cid, c):
    vals = E.hyb_values(c)
    n, bw, hx = len(vals), c["bw"], hexs(c["bytes"])
    lines = ["%s rle_dec %d %d %s" % (cid, bw, n, hx),
             "%sS rle_hist %d %s B%d" % (cid, bw, hx, n)]
    if bw <= 15:
        pre = list(len(c["bytes"]).to_bytes(4, "little")) + list(c["bytes"]) + [0x03, 0xFF]
        lines.append("%sL lvl_dec %d %d %s" % (cid, bw, n, hx))
        lines.append("%sP lvlp_dec %d %d %s" % (cid, bw, n, hexs(pre)))
    return lines


def run(chk, tier, replay):
    binary = common.build_harness(E.HARNESS)
    if replay:
        return E.replay_file(chk, binary, replay, alt_lines, judge_alt)
    thorough = tier != "quick"
    chk.assumptions += [
        "TLA+ format modules validated by MC_HybridSelf / MC_EncSelf before judging (round trips, Encodings.md worked examples)",
        "DELTA streams with block size 128 / 4 miniblocks must decode; other legal geometries must decode or be rejected, never give other values",
        "INT32 DELTA streams whose stored widths exceed 32 are still parsed by the specification reader (values reduced modulo 2^32): weakest reading",
        "bitunpack_32 is given whole 8-value groups of input (its documented unit)",
    ]
    _t0[0] = _time.time()
    E.selfcheck(chk, tier)
    T('selfcheck')

    jobs = [("seq-bin", dict(module="MC_EncRefine", constants_text=E.refine_cfg(1, [0, 1], 15 if thorough else 11, "fill", True), workers=2, timeout=2400)),
            ("hist", dict(module="MC_EncHist", constants_text=E.hist_cfg("pos", 2 if thorough else 1, 8, "consume", True, ALL_STREAMS), workers=2, timeout=2400))]
    th = "TRUE" if thorough else "FALSE"
    jobs.insert(0, ("alt", dict(module="MC_EncAlt", workers=8, timeout=2400,
                                constants_text=E.cfg_text({"Families": E.tla_set(["hyb", "delta", "str", "dict"]), "Thorough": th}))))
    jobs.insert(1, ("cases", dict(module="MC_EncCases", workers=5, timeout=2400,
                                  constants_text=E.cfg_text({"Families": E.tla_set(E.FAMILIES), "Thorough": th}))))
    res = E.run_many(jobs, parallel=4)
    T('tlc generation')
    for name, r in res.items():
        common.log('    job %-14s %.1fs %d cases' % (name, r.wall, len(r.cases)))
        if r.error or r.rc != 0:
            raise InfraError("TLC job %s failed rc=%s\n%s" % (name, r.rc, r.out[-2500:]))
        chk.add_tlc(r)

    # ------------------------------------------------------------------ (a) carquet encodes, TLC parses
    cases = []
    for name in ("seq-bin", "cases"):
        cases += [c for c in res[name].cases if c.get("kind") in E.FAMILIES]
    lines, owner = [], {}
    for i, c in enumerate(cases):
        cid = "a%d" % i
        lines += E.roundtrip_lines(cid, c)
        owner[cid] = c
    hres, faults, _ = common.run_harness_leaks(binary, lines, leak_every=512)
    T('harness a (%d lines)' % len(lines))
    events, ev_owner = [], {}
    for cid, c in owner.items():
        _, evs, _ = E.check_roundtrip(cid, c, hres)
        for e in evs:
            events.append(e)
            ev_owner[e["id"]] = (cid, c)
    verdicts, tr = E.trace_validate(events)
    T('trace validation (%d events)' % len(events))
    chk.add_tlc(tr)
    chk.cov["traces_validated_against_impl"] += len(verdicts)
    fam_a = {}
    for eid, v in verdicts.items():
        cid, c = ev_owner[eid]
        st = fam_a.setdefault(c["kind"], {"streams": 0, "rejected": 0})
        st["streams"] += 1
        chk.count(("enc",) + E.case_key(c) + (eid[len(cid):],), E.case_len(c) >= 2)
        if c["kind"] == "delta" and v["ok"] and c["L"] == 4 and v.get("x", 0) > 32:
            st["int32_streams_with_width_over_32"] = st.get("int32_streams_with_width_over_32", 0) + 1
        if not v["ok"]:
            st["rejected"] += 1
            ev = next(e for e in events if e["id"] == eid)
            ev = dict(ev, bytes=ev.get("bytes", ev.get("idx", [])))
            chk.violation(E.trace_signature(c, v, ev["bytes"]),
                          "the specification reader rejects carquet's %s output (%s; parse ended after %s of %d bytes): values %s" % (
                              c["kind"], v["why"], v["p"], len(ev["bytes"]), str({k: x for k, x in c.items() if k in ("bw", "vals", "L", "w", "sp", "shape", "strs", "items")})[:300]),
                          {"case": {k: x for k, x in c.items() if k not in ("pad", "fill")}, "carquet_bytes": ev["bytes"], "lines": E.roundtrip_lines(cid, c)})
    for f in faults:
        base = f.case_id.rstrip("LRGABFD")
        c = owner.get(base)
        chk.violation(E.fault_signature("enc:%s" % (c["kind"] if c else "?"), f), "fault while encoding a generated sequence",
                      {"lines": E.roundtrip_lines(base, c) if c else f.case_id, "stderr": getattr(f, "stderr", "")[-1500:]})
    chk.part("a_carquet_encode_spec_decode", **fam_a)
    if events:
        e = events[len(events) // 2]
        chk.sample({"direction": "a", "event": {k: (v if not isinstance(v, list) or len(v) < 40 else v[:40] + ["..."]) for k, v in e.items()}})

    # ------------------------------------------------------------------ (b) TLC encodes, carquet decodes
    alt = [c for c in res["alt"].cases if "kind" in c]
    bad_oracle = [c for c in alt if not c.get("selfok", False)]
    if bad_oracle:
        raise InfraError("format module fails Parse(Ser(x)) = x on %d generated cases, e.g. %s" % (len(bad_oracle), str(bad_oracle[0])[:400]))
    # canonical-form families reuse the generated sequences with the bytes the format prescribes
    canon = [c for c in cases if c["kind"] in ("bp", "bitw", "plain", "bss") and "bytes" in c]
    blines, bown = [], {}
    for i, c in enumerate(alt + canon):
        cid = "b%d" % i
        bown[cid] = c
        blines += alt_lines(cid, c)
    # what carquet's own encoder writes for the hybrid value sequences (for the "not carquet's own
    # form" rule of the non-trivial count)
    own = {}
    olines = []
    for cid, c in bown.items():
        if c["kind"] == "hyb":
            olines.append("%sO rle_rt %d %s" % (cid, c["bw"], E.csv(E.hyb_values(c))))
    bres, bfaults, _ = common.run_harness_leaks(binary, blines + olines, leak_every=512)
    T('harness b (%d lines)' % len(blines + olines))
    fam_b = {}
    bstats = {}

    by_case = {}
    for ln in blines:
        by_case.setdefault(ln.split(" ", 1)[0].rstrip("SLPABFD"), []).append(ln)
    seen_sig = set()

    def viol(sig, what, cid, c):
        # full replay material for the first occurrence of a signature, a stub afterwards
        if sig in seen_sig:
            chk.violation(sig, what[:200], cid)
            return
        seen_sig.add(sig)
        rep = {"case": {k: (v if not isinstance(v, list) or len(v) < 600 else v[:600]) for k, v in c.items()},
               "lines": by_case.get(cid, [])[:6]}
        chk.violation(sig, what, rep)

    for cid, c in bown.items():
        k = c["kind"]
        st = fam_b.setdefault(k, {"streams": 0, "mismatch": 0})
        st["streams"] += 1
        before = len(chk.violations)
        nontrivial = judge_alt(cid, c, bres, viol, bstats)
        if len(chk.violations) > before:
            st["mismatch"] += 1
        chk.count(("dec", k, json_key(c)), nontrivial and E.case_len(c) >= 2)
    fam_b["delta"]["other_geometry_rejected_not_a_violation"] = bstats.get("other_geom_rejected", 0)
    for f in bfaults:
        base = f.case_id.rstrip("SLPABFDO")
        c = bown.get(base)
        chk.violation(E.fault_signature("dec:%s" % (c["kind"] if c else "?"), f), "fault while decoding a specification-written stream",
                      {"lines": [ln for ln in blines if ln.split(" ", 1)[0] == f.case_id][:2], "stderr": getattr(f, "stderr", "")[-1500:]})
    chk.cov["traces_validated_against_impl"] += len(bown)
    chk.part("b_spec_encode_carquet_decode", **fam_b)
    if alt:
        c = alt[len(alt) // 2]
        chk.sample({"direction": "b", "case": {k: (v if not isinstance(v, list) or len(v) < 40 else v[:40] + ["..."]) for k, v in c.items()}})

    # ------------------------------------------------------------------ (b') streaming histories over all 15 streams
    streams, hist_cases = {}, []
    for c in res["hist"].cases:
        if c.get("kind") == "stream":
            streams[c["sid"]] = c
        elif c.get("kind") == "hist":
            hist_cases.append(c)
    hl = []
    for i, c in enumerate(hist_cases):
        s = streams[c["sid"]]
        ops = [o["op"] if o["op"] in ("G", "H") else "%s%d" % (o["op"], o["k"]) for o in c["ops"]] + ["B%d" % (len(c["drain"]) + 2)]
        hl.append("s%d rle_hist %d %s %s" % (i, s["bw"], hexs(s["bytes"]), " ".join(ops)))
    T('compare b')
    hr, hf, _ = common.run_harness_leaks(binary, hl, leak_every=512)
    T('harness hist (%d lines)' % len(hl))
    nh = bad = 0
    for i, c in enumerate(hist_cases):
        got = hr.get("s%d" % i)
        if got is None:
            continue
        nh += 1
        chk.count(("hist", c["sid"], [(o["op"], o["k"]) for o in c["ops"]]), True)
        exp = []
        for o in c["ops"]:
            exp.append("g%d" % o["vals"][0] if o["op"] == "G" else "b%d:%s" % (o["n"], E.csv(o["vals"])) if o["op"] == "B"
                       else "s%d" % o["n"] if o["op"] == "S" else "h" + o["hn"])
        exp.append("b%d:%s" % (len(c["drain"]), E.csv(c["drain"])))
        if not all(e == g or (e == "h?" and g in ("h0", "h1")) for e, g in zip(exp, got)):
            bad += 1
            s = streams[c["sid"]]
            zr = c["sid"] in (5, 15)
            chk.violation("rle-dec:zero-length-rle-run-value-bytes-not-consumed" if zr else "rle-dec:history-values",
                          "stream %d (bw %d, %s): calls %s must return %s, got %s" % (c["sid"], s["bw"], hexs(s["bytes"]), hl[i].split(" ", 4)[4], exp, got[:len(exp)]),
                          {"line": hl[i], "expected": exp})
    for f in hf:
        chk.violation(E.fault_signature("rle-dec-history", f), "fault in streaming decoder history", {"stderr": getattr(f, "stderr", "")[-1500:]})
    chk.cov["traces_validated_against_impl"] += nh
    chk.part("b_streaming_histories", histories=nh, streams=len(streams), mismatching=bad)
    chk.cov["rule"] = ("direction a: one evaluation = one carquet-written stream judged by TLC (MC_EncTrace); direction b: one specification-written "
                       "stream decoded by every carquet entry point of the family. distinct non-trivial = distinct (encoding, parameters, values, form) "
                       "with >= 2 values and, in direction b, a form that differs from what carquet's own encoder writes "
                       "(hybrid: bytes compared; DELTA/strings: non-default option or stored width > 32)")


def alt_lines(cid, c):
    """harness lines that feed one specification-written stream to every decoder entry point of its family"""
    k = c["kind"]
    blines = []
    if k == "hyb":
        blines += hyb_dec_lines(cid, c)
    elif k == "delta":
        blines.append("%s d%d_dec %d %s" % (cid, 32 if c["L"] == 4 else 64, len(c["vals"]), hexs(c["bytes"])))
    elif k == "str":
        n = len(c["strs"])
        blines.append("%sA dl_dec %d %s" % (cid, n, hexs(c["dlen"])))
        blines.append("%sB ds_dec %d %d %s" % (cid, n, sum(len(s) for s in c["strs"]), hexs(c["dstr"])))
    elif k == "dict":
        blines.append("%s dict_dec %d %d %s %s %d" % (cid, c["t"], c["dcount"], hexs(c["dict"]), hexs(c["idx"]), len(c["vals"])))
    elif k == "bp":
        n, bw = len(c["w"]), c["bw"]
        groups = (n + 7) // 8
        blines.append("%s bp_unp %d %d %s" % (cid, bw, n, hexs(list(c["bytes"]) + [0] * (groups * bw - len(c["bytes"])))))
    elif k == "bitw":
        blines.append("%s br_rd %s %s" % (cid, hexs(c["bytes"]), E.csv([i["w"] for i in c["items"]])))
    elif k == "plain":
        blines.append("%s plain_dec %d %d %d %s" % (cid, c["t"], c["tlen"], len(c["vals"]), hexs(c["bytes"])))
    elif k == "bss":
        K, n = c["K"], len(c["vals"])
        blines.append("%s bss_dec g %d %d %s" % (cid, K, n, hexs(c["bytes"])))
        if K == 4:
            blines.append("%sF bss_dec f 4 %d %s" % (cid, n, hexs(c["bytes"])))
        if K == 8:
            blines.append("%sD bss_dec d 8 %d %s" % (cid, n, hexs(c["bytes"])))

    return blines


def judge_alt(cid, c, bres, viol, stats):
    """direction b: compare what carquet's decoders returned for one specification-written stream with the
    values the specification assigns; returns the non-trivial flag for the distinct count"""
    k = c["kind"]
    nontrivial = True
    if k == "hyb":
        vals = E.hyb_values(c)
        n, bw = len(vals), c["bw"]
        o = bres.get(cid + "O")
        nontrivial = not (o and E.unhex_list(o[1]) == c["bytes"])
        feat = c["feat"]
        what_kind = "zero-length-rle-run-value-bytes-not-consumed" if c["zrle"] else \
                    "values:" + ("padded-final-group" if feat["pad"] else "multi-group-literal-run" if feat["multi"] else
                                 "zero-length-run" if feat["zero"] else "mixed-runs")
        desc = "bw=%d stream %s (%d runs, features %s) must decode to %s" % (bw, hexs(c["bytes"])[:100], feat["nruns"], feat, vals[:30])
        r = bres.get(cid)
        if r and (int(r[0]) != n or E.uncsv(r[1]) != vals):
            viol("rle-dec:" + what_kind, "decode_all: %s, got %s values %s" % (desc, r[0], r[1][:100]), cid, c)
        r = bres.get(cid + "S")
        if r and r[0] != "b%d:%s" % (n, E.csv(vals)):
            viol("rle-dec:" + what_kind, "streaming get_batch: %s, got %s" % (desc, r[0][:120]), cid, c)
        r = bres.get(cid + "L")
        if r and (int(r[0]) != n or E.uncsv(r[1]) != vals):
            viol("rle-levels-dec:" + what_kind, "decode_levels: %s, got %s values %s" % (desc, r[0], r[1][:100]), cid, c)
        r = bres.get(cid + "P")
        if r:
            if int(r[0]) != n or E.uncsv(r[2]) != vals:
                viol("rle-levels-dec:" + what_kind, "decode_levels_prefixed: %s, got %s values %s" % (desc, r[0], r[2][:100]), cid, c)
            elif int(r[1]) != 4 + len(c["bytes"]):
                viol("rle-levels-prefixed:consumed", "bytes_consumed %s for a block of 4+%d" % (r[1], len(c["bytes"])), cid, c)
    elif k == "delta":
        L, vals = c["L"], c["vals"]
        n = len(vals)
        nontrivial = c["o"]["widen"] > 0 or c["o"]["unused"] != 0 or not c["std"] or c["maxw"] > 32
        r = bres.get(cid)
        if r:
            dst, cons, out = int(r[0]), int(r[1]), r[2]
            wide = c["maxw"] > 32
            tag = "wide-deltas-byte-aligned" if wide else ("empty-sequence" if n == 0 else "values")
            if dst != 0:
                if not c["std"]:
                    stats["other_geom_rejected"] = stats.get("other_geom_rejected", 0) + 1
                else:
                    viol("delta-dec:%s" % (tag if tag != "values" else "rejects-legal-stream"),
                         "delta decode L=%d n=%d opts %s widest miniblock %d bits: status %d" % (L, n, c["o"], c["maxw"], dst), cid, c)
            else:
                if E.chunks(E.unhex_list(out), L) != vals:
                    viol("delta-dec:" + tag, "delta decode L=%d n=%d opts %s widest miniblock %d bits returns other values" % (L, n, c["o"], c["maxw"]), cid, c)
                elif cons != len(c["bytes"]):
                    viol("delta-dec:consumed", "bytes_consumed %d, stream is %d bytes (L=%d n=%d opts %s)" % (cons, len(c["bytes"]), L, n, c["o"]), cid, c)
    elif k == "str":
        strs = c["strs"]
        n = len(strs)
        nontrivial = c["pm"] != "max" or c["o"]["widen"] > 0 or c["o"]["unused"] != 0
        for suf, name, key in (("A", "dlen", "dlen"), ("B", "dstr", "dstr")):
            r = bres.get(cid + suf)
            if not r:
                continue
            dst, cons, out = int(r[0]), int(r[1]), r[2]
            if dst != 0:
                viol("%s-dec:%s" % (name, "refuses-empty-sequence" if n == 0 else "rejects-legal-stream"),
                     "%s decode of %d strings (opts %s, prefixes %s): status %d" % (name, n, c["o"], c["pm"], dst), cid, c)
            elif E.unstrs(out) != strs:
                viol("%s-dec:values" % name, "%s decode of %d strings (opts %s, prefixes %s) returns other strings" % (name, n, c["o"], c["pm"]), cid, c)
            elif cons != len(c[key]):
                viol("%s-dec:consumed" % name, "%s bytes_consumed %d, stream is %d bytes" % (name, cons, len(c[key])), cid, c)
    elif k == "dict":
        t, vals = c["t"], c["vals"]
        nontrivial = c["style"] != 1 or True
        r = bres.get(cid)
        if r:
            dst, out = int(r[0]), r[1]
            if dst != 0 or E.chunks(E.unhex_list(out), E.PLAIN_W[t]) != vals:
                zr = c["style"] == 1
                viol("dict-dec:" + ("zero-length-rle-run-value-bytes-not-consumed" if zr else "values"),
                     "dictionary decode type %d, %d entries, index width %d, run style %d: status %d / other values" % (t, c["dcount"], c["bw"], c["style"], dst), cid, c)
    elif k == "bp":
        vals = E.hyb_values(c)
        r = bres.get(cid)
        if r and (E.uncsv(r[1]) != vals or int(r[0]) != len(c["bytes"])):
            viol("bitunpack:values", "bitunpack_32 bw=%d of %s: returned %s %s expected %s" % (c["bw"], hexs(c["bytes"])[:80], r[0], r[1][:80], vals[:20]), cid, c)
    elif k == "bitw":
        vals = [E.limbs_int(i["v"]) for i in c["items"]]
        r = bres.get(cid)
        if r and E.uncsv(r[0]) != vals:
            viol("bit-reader:values", "bit_reader on %s widths %s: got %s expected %s" % (hexs(c["bytes"])[:60], [i["w"] for i in c["items"]][:12], r[0][:80], vals[:8]), cid, c)
    elif k == "plain":
        t, vals = c["t"], c["vals"]
        r = bres.get(cid)
        if r:
            ret, payload = int(r[0]), r[1]
            got = E.unstrs(payload) if t == 6 else E.unhex_list(payload) if t == 0 else E.chunks(E.unhex_list(payload), E.PLAIN_W.get(t, c["tlen"]))
            if ret != len(c["bytes"]) or got != vals:
                viol("plain-dec:values", "decode_plain type %d n=%d returned %d (stream %d bytes) / other values" % (t, len(vals), ret, len(c["bytes"])), cid, c)
    elif k == "bss":
        K, vals = c["K"], c["vals"]
        for suf in ("", "F", "D"):
            r = bres.get(cid + suf)
            if r and (int(r[0]) != 0 or E.chunks(E.unhex_list(r[1]), K) != vals):
                viol("bss-dec:values", "byte_stream_split decode%s K=%d n=%d status %s / other values" % (suf, K, len(vals), r[0]), cid, c)
    return nontrivial


def json_key(c):
    import json
    return json.dumps({k: v for k, v in c.items() if k in ("bw", "bytes", "L", "o", "pm", "dlen", "dstr", "t", "idx", "K", "tlen", "items")}, sort_keys=True)
