"""C13 - Thrift metadata round-trips and is genuine compact protocol.

Deciding method (all verdicts are computed by TLC-executed specifications):
  * spec/fmt/ThriftCompact.tla (wire grammar, generic trees <-> bytes, every alternative encoding) and
    spec/fmt/ParquetThrift.tla (parquet.thrift restricted to what carquet models: abstract records
    <-> trees, unknown fields ignored by Abs, conformance to the IDL) are the independent
    encoder/decoder. MC_ThriftSelf and the `self` flag of every generated variant check
    Abs(TParse(TSer(ToTree(a)))) = a on the spec alone (oracle errors are INFRA errors).
  * MC_ThriftGen generates abstract FileMetaData / PageHeader values (bounded-exhaustive over the
    parameter axes + seeded random points) and, for each, byte strings from the spec's encoder under
    alternative styles and with unknown fields of every wire type inserted.
  * harness/h_thrift.c fills carquet's structs from the case, calls parquet_write_* /
    parquet_parse_* (and the thrift_write_* / thrift_read_* primitives for generic trees) and
    records bytes, statuses, consumed counts and a dump of every struct field.
  * MC_ThriftTrace validates the recorded executions: (a) TParse/Abs/TypeErrs of carquet's bytes =
    the case, consumed = produced; (b) carquet's re-parse = the case on every field carquet
    serialises; (c) carquet's parse of the spec's bytes = the case. It prints named verdicts.
Python only moves data (JSON case -> harness tokens, harness output -> ndjson) and names a failure
(first differing field path) for the violation signature.
"""
import json
import os
import resource
import time
from concurrent.futures import ThreadPoolExecutor

from vlib import common
from vlib.common import hexs

LEVEL = "model_checking"
DEV = bool(os.environ.get("C13_DEV"))      # development on a shared box: one TLC at a time, <= 4 workers / processes

INT_T = ("i16", "i32", "i64")
TID = {"bool": 1, "byte": 3, "i16": 4, "i32": 5, "i64": 6, "double": 7, "binary": 8, "list": 9, "set": 10,
       "map": 11, "struct": 12, "uuid": 13}


def w2i(w):
    return int.from_bytes(bytes(w), "little", signed=True)


# ------------------------------------------------------------------ case JSON -> harness tokens (mechanical)
def flat_lt(a, out):
    out.append(a["k"])
    k = a["k"]
    if k == "DECIMAL":
        out += [str(w2i(a["scale"])), str(w2i(a["precision"]))]
    elif k in ("TIME", "TIMESTAMP"):
        out += ["1" if a["utc"] else "0", str(["MILLIS", "MICROS", "NANOS"].index(a["unit"]))]
    elif k == "INTEGER":
        out += [str(a["bitWidth"]), "1" if a["signed"] else "0"]


def flat_prim(ty, v, out):
    if ty in INT_T:
        out.append(str(w2i(v)))
    elif ty == "bool":
        out.append("1" if v else "0")
    elif ty == "byte":
        out.append(str(v))
    elif ty == "binary":
        out.append(hexs(v))
    else:
        raise common.InfraError("flat_prim: " + ty)


def flat(table, kind, a, out):
    for fd in table[kind]:
        v = a[fd["n"]]
        if fd["mode"] == "opt":
            if not v:
                out.append("~")
                continue
            out.append("+")
            v = v[0]
        if fd["ty"] == "struct":
            if fd["sub"] == "LogicalType":
                flat_lt(v, out)
            else:
                flat(table, fd["sub"], v, out)
        elif fd["ty"] == "list":
            out.append(str(len(v)))
            for e in v:
                if fd["et"] == "struct":
                    flat(table, fd["sub"], e, out)
                else:
                    flat_prim(fd["et"], e, out)
        else:
            flat_prim(fd["ty"], v, out)


def flat_generic(x, out, as_field=None):
    """generic tree -> thrift_write_* script"""
    t = x["t"]
    if as_field is not None:
        if t == "bool":
            out += ["F", "1" if x["v"] else "2", str(as_field)]
            return
        out += ["F", str(TID[t]), str(as_field)]
    if t == "bool":
        out += ["o", "1" if x["v"] else "0"]
    elif t == "byte":
        out += ["y", str(x["v"])]
    elif t == "i16":
        out += ["h", str(w2i(x["v"]))]
    elif t == "i32":
        out += ["i", str(w2i(x["v"]))]
    elif t == "i64":
        out += ["l", str(w2i(x["v"]))]
    elif t == "double":
        out += ["d", hexs(x["v"])]
    elif t == "binary":
        out += ["b", hexs(x["v"])]
    elif t == "uuid":
        out += ["u", hexs(x["v"])]
    elif t in ("list", "set"):
        out += ["L" if t == "list" else "T", str(TID[x["et"]]), str(len(x["v"]))]
        for e in x["v"]:
            flat_generic(e, out)
    elif t == "map":
        out += ["M", str(TID[x["kt"]]), str(TID[x["vt"]]), str(len(x["v"]))]
        for k, v in x["v"]:
            flat_generic(k, out)
            flat_generic(v, out)
    elif t == "struct":
        out.append("S")
        for f in x["v"]:
            flat_generic(f["val"], out, as_field=f["id"])
        out.append("E")


# ------------------------------------------------------------------ naming a difference (signatures only)
def default_struct(table, kind):
    d = {}
    for fd in table[kind]:
        if fd["mode"] == "opt" or fd["ty"] in ("binary", "list"):
            d[fd["n"]] = []
        elif fd["ty"] in INT_T:
            d[fd["n"]] = [0] * 8
        elif fd["ty"] == "bool":
            d[fd["n"]] = fd["d"]
        else:
            d[fd["n"]] = 0
    return d


def diff(table, kind, got, want, keep, out):
    """paths (Kind.field) where got and want differ on the kept fields; `:lost` / `:spurious` for
    optionals, `:len` for lists, `:content-lost` when a whole sub-struct came back all-default"""
    for fd in table[kind]:
        n = fd["n"]
        if n not in keep[kind]:
            continue
        path = kind + "." + n
        g, w = got.get(n), want.get(n)
        if fd["mode"] == "opt":
            if bool(g) != bool(w):
                out.add(path + (":lost" if not g else ":spurious"))
                continue
            if not g:
                continue
            g, w = g[0], w[0]
        if fd["ty"] == "struct" and fd["sub"] != "LogicalType":
            sub = set()
            diff(table, fd["sub"], g, w, keep, sub)
            if sub and g == default_struct(table, fd["sub"]):
                out.add(path + ":content-lost")
            else:
                out |= sub
        elif fd["ty"] == "list" and fd["et"] == "struct":
            if len(g) != len(w):
                out.add(path + ":len")
            else:
                for a, b in zip(g, w):
                    diff(table, fd["sub"], a, b, keep, out)
        elif g != w:
            out.add(path)


def first_paths(s, limit=2):
    return "+".join(sorted(s)[:limit]) if s else "?"


# ------------------------------------------------------------------ generation
# TLC runs of the generator: (families emitted by the run, workers, NRand)
RUNS = {
    "quick": [(("table", "obs", "logical", "deep", "generic"), 3, 0), (("page",), 4, 0), (("file", "rand"), 4, 24),
              (("unkfile",), 3, 0), (("unkpage",), 2, 0)],
    "thorough": [(("table", "obs", "logical", "deep", "generic"), 3, 0), (("page",), 4, 0), (("file",), 4, 0),
                 (("rand",), 3, 300), (("unkfile",), 3, 0), (("unkpage",), 2, 0)],
}


def gen_run(fams, tier, workers, nrand):
    cfg = ('CONSTANTS\n Family = {%s}\n Tier = "%s"\n Seed = %d\n NRand = %d\nINIT Init\nNEXT Next\n'
           'CHECK_DEADLOCK FALSE\n' % (", ".join('"%s"' % f for f in fams), tier, common.seed(), max(nrand, 1)))
    r = common.run_tlc("MC_ThriftGen", constants_text=cfg, workers=workers, heap="3g", timeout=1500)
    common.tlc_ok(r, "MC_ThriftGen " + ",".join(fams))
    if not r.cases:
        raise common.InfraError("MC_ThriftGen %s produced no cases\n%s" % (fams, r.out[-1500:]))
    return r


def generate(chk, tier):
    runs = RUNS[tier]
    only = os.environ.get("C13_FAMILIES")
    if only:
        keep = set(only.split(",")) | {"table"}
        runs = [(tuple(f for f in fams if f in keep), w, n) for fams, w, n in runs]
        runs = [r for r in runs if r[0]]
    with ThreadPoolExecutor(max_workers=1 if DEV else len(runs)) as ex:
        ress = list(ex.map(lambda f: gen_run(f[0], tier, min(f[1], 4) if DEV else f[1], f[2]), runs))
    table, cases, per_fam = None, [], {}
    for r in ress:
        chk.add_tlc(r)
        for c in r.cases:
            if "table" in c:
                table = c["table"]
            else:
                per_fam.setdefault(c["fam"], []).append(c)
    for fam in sorted(per_fam):
        cs = sorted(per_fam[fam], key=lambda c: json.dumps(c["point"], sort_keys=True))
        for i, c in enumerate(cs):
            c["id"] = "%s%d" % (fam, i)
            c["idx"] = i
            for j, v in enumerate(c["vars"]):
                if not v["self"]:
                    raise common.InfraError("spec self-check failed (Abs(TParse(TSer(ToTree(a)))) # a) for %s variant %d %s"
                                            % (c["id"], j, v.get("desc")))
            cases.append(c)
        chk.part("gen:" + fam, cases=len(cs), variants=sum(len(c["vars"]) for c in cs))
    if table is None:
        raise common.InfraError("generator did not export the IDL table")
    return table, cases


# ------------------------------------------------------------------ execution on carquet
TRAILS = ["-", "00", "ff15002c15", "1500"]


def lines_for(table, c):
    lines = []
    cid, kind = c["id"], c["kind"]
    flags = "N" if c["idx"] % 2 == 1 else "x"
    if c["ab"]:
        toks = []
        if kind == "generic":
            flat_generic(c["a"], toks)
            lines.append("%s.w gw %s" % (cid, " ".join(toks)))
        elif kind == "FileMetaData":
            flat(table, kind, c["a"], toks)
            lines.append("%s.w fmw %s %s" % (cid, flags, " ".join(toks)))
        else:
            flat(table, kind, c["a"], toks)
            lines.append("%s.w phw %s %s %s" % (cid, flags, TRAILS[c["idx"] % 4], " ".join(toks)))
    for j, v in enumerate(c["vars"]):
        vid = "%s.v%d" % (cid, j)
        if "deep" in v:
            d = v["deep"]
            lines.append("%s phd %s %s %d %s %s %d %s %s" % (vid, hexs(d["pre"]), hexs(d["rep"]), d["n"], hexs(d["mid"]),
                                                           hexs(d["rep2"]), d["n2"], hexs(d["tail"]), TRAILS[j % 4]))
        elif kind == "generic":
            lines.append("%s gr %s" % (vid, hexs(v["bytes"])))
        elif kind == "FileMetaData":
            lines.append("%s fmp %s" % (vid, hexs(v["bytes"])))
        else:
            lines.append("%s php %s %s" % (vid, hexs(v["bytes"]), TRAILS[(j + c["idx"]) % 4]))
    return lines


def var_len(v):
    if "deep" in v:
        d = v["deep"]
        return len(d["pre"]) + len(d["rep"]) * d["n"] + len(d["mid"]) + len(d["rep2"]) * d["n2"] + len(d["tail"])
    return len(v["bytes"])


def record_for(c, res, fault_of):
    """assemble the trace record of one case from the harness output (no judgement)"""
    cid = c["id"]
    rec = {"e": "Case", "id": cid, "kind": c["kind"], "a": c["a"], "ab": False, "vars": []}
    infra = []
    if c["ab"]:
        out = res.get(cid + ".w")
        if out is None:
            rec["wfault"] = fault_of.get(cid + ".w", "no-output")
        elif out[0] == "ERR":
            infra.append("%s: harness %s" % (cid, " ".join(out)))
        else:
            rec["ab"] = True
            rec["w"] = {"st": int(out[0]), "bytes": list(common.unhex(out[1]))}
            if c["kind"] != "generic":
                rec["rt"] = {"st": int(out[2]), "consumed": int(out[3]), "dump": json.loads(out[4])}
    for j, v in enumerate(c["vars"]):
        vid = "%s.v%d" % (cid, j)
        out = res.get(vid)
        ent = {"n": var_len(v), "mayReject": bool(v.get("mayReject")), "fault": "", "st": -1, "consumed": 0, "dump": {}}
        if out is None:
            ent["fault"] = fault_of.get(vid, "no-output")
        elif c["kind"] == "generic":
            ent.update(st=int(out[1]), consumed=int(out[2]), dump=json.loads(out[0]))
        else:
            ent.update(st=int(out[0]), consumed=int(out[1]), dump=json.loads(out[2]))
        rec["vars"].append(ent)
    return rec, infra


def execute(table, cases, binary):
    lines = []
    for c in cases:
        lines += lines_for(table, c)
    res, faults, leaky = common.run_harness_parallel(binary, lines, nproc=4 if DEV else None, per_case_timeout=60.0)
    fault_of = {f.case_id: f.signature() for f in faults}
    recs, infra = [], []
    for c in cases:
        r, i = record_for(c, res, fault_of)
        recs.append(r)
        infra += i
    if infra:
        raise common.InfraError("harness protocol errors: " + "; ".join(infra[:5]))
    return recs, faults, leaky, len(lines)


# ------------------------------------------------------------------ judging + naming
def desc_of(v):
    d = v.get("desc")
    if isinstance(d, dict):
        return "unk %s@%s %s" % (d["target"], d["at"], d["ty"])
    return str(d)


def name_violation(table, keeps, c, rec, why):
    """(signature, text) for one named verdict of MC_ThriftTrace"""
    kind = c["kind"]
    if why.startswith("a:"):
        what = why[2:]
        if what == "abs-differs" and kind != "generic" and rec.get("rt", {}).get("st") == 0:
            return "ser:abs-differs", "independent decoder reads a different value than the case (%s)" % kind
        return "ser:" + what, "carquet's serialisation of %s: %s" % (kind, what)
    if why.startswith("b:"):
        what = why[2:]
        if what == "differs":
            d = set()
            diff(table, kind, rec["rt"]["dump"], c["a"], keeps["keepS"], d)
            return "rt:differs:" + first_paths(d), "write->parse round trip of %s differs in %s" % (kind, sorted(d)[:6])
        if what == "parse-status":
            return "rt:parse-status:%s" % kind, "carquet cannot parse its own %s (status %d)" % (kind, rec["rt"]["st"])
        return "rt:%s:%s" % (what, kind), "round trip of %s: bytes consumed %s # produced %d" % (kind, rec["rt"]["consumed"], len(rec["w"]["bytes"]))
    what, j = why[2:].split("@")
    j = int(j) - 1
    v, ent = c["vars"][j], rec["vars"][j]
    d = v.get("desc")
    if isinstance(d, dict):
        ctx = "skip:" + d["ty"]
    elif "deep" in v:
        ctx = "skip:deep-%s" % d[0]
    elif d in ("real", "mix"):
        ctx = "skip:" + d
    elif kind == "generic":
        ctx = "read:generic"
    else:
        ctx = "parse:%s" % kind
    if what == "fault":
        fk = ent["fault"].split(":")[0] if ent["fault"].startswith("stack-overflow") else ent["fault"]
        return "%s:fault:%s" % (ctx, fk), "fault %s while parsing %s variant (%s, style %s)" % (ent["fault"], kind, desc_of(v), v["sty"])
    if what == "parse-status":
        return "%s:rejected" % ctx, "carquet rejects (status %d) a valid %s encoding (%s, style %s)" % (ent["st"], kind, desc_of(v), v["sty"])
    if what == "consumed":
        return "%s:consumed" % ctx, "%s (%s, style %s): consumed %d of %d bytes" % (kind, desc_of(v), v["sty"], ent["consumed"], ent["n"])
    if kind == "generic":
        return "%s:differs" % ctx, "generic tree read through thrift_read_* differs (style %s)" % v["sty"]
    dd = set()
    diff(table, kind, ent["dump"], c["a"], keeps["keepP"], dd)
    base = set()
    b0 = next((k for k, bv in enumerate(c["vars"]) if bv.get("desc") == "plain" and rec["vars"][k]["st"] == 0 and k != j), None)
    if b0 is not None:
        diff(table, kind, rec["vars"][b0]["dump"], c["a"], keeps["keepP"], base)
    if ctx.startswith("skip:") and dd != base:
        # the skipped payload names the failure; the damaged fields vary with position
        return "%s:differs" % ctx, "%s parsed from the spec's encoding (%s, style %s) differs in %s" % (kind, desc_of(v), v["sty"], sorted(dd)[:6])
    return "parse:%s:differs:%s" % (kind, first_paths(dd)), "%s parsed from the spec's encoding (%s, style %s) differs in %s" % (kind, desc_of(v), v["sty"], sorted(dd)[:6])


def slim_case(c, j=None):
    """replay object: the generated case, restricted to the failing variant"""
    r = {k: c[k] for k in ("id", "idx", "fam", "kind", "a", "ab", "point")}
    r["vars"] = list(c["vars"]) if j is None else [c["vars"][j]]
    if j is not None:
        r["ab"] = False
    return r


def judge(chk, table, cases, recs, nproc=6):
    by_id = {c["id"]: c for c in cases}
    # interleave the records so that every TLC process gets a similar mix of families
    todo = [[r] for r in recs if "wfault" not in r]
    todo = [x for k in range(nproc) for x in todo[k::nproc]]
    verdicts, stats, ress = common.validate_traces("MC_ThriftTrace", todo, nproc=nproc, heap="3g")
    for r in ress:
        chk.add_tlc(r)
    keeps = {k: {kk: set(vv) for kk, vv in ress[0].cases[-1][k].items()} for k in ("keepS", "keepP")}
    rec_of = {r["id"]: r for r in recs}
    for v in verdicts:
        c, rec = by_id[v["id"]], rec_of[v["id"]]
        if c["fam"] == "obs":      # outside the property's domain: evidence only
            chk.part("observations", **{c["point"]["what"]: sorted(name_violation(table, keeps, c, rec, w)[0] for w in v["why"])})
            continue
        for why in v["why"]:
            sig, text = name_violation(table, keeps, c, rec, why)
            j = int(why.split("@")[1]) - 1 if "@" in why else None
            chk.violation(sig, text, slim_case(c, j))
    for r in recs:
        if "wfault" in r:
            chk.violation("ser:fault:" + r["wfault"], "fault %s in parquet_write_*/parse of own bytes" % r["wfault"], slim_case(by_id[r["id"]]))
    return stats, keeps


def observe_dropped(chk, table, cases, recs, keeps):
    """fields of the case that carquet does not serialise (outside the property, recorded as evidence)"""
    allk = {k: set(fd["n"] for fd in table[k]) for k in table}
    dropped = {}
    for c, r in zip(cases, recs):
        if not r.get("ab") or c["kind"] == "generic" or r["rt"]["st"] != 0:
            continue
        full, kept = set(), set()
        diff(table, c["kind"], r["rt"]["dump"], c["a"], allk, full)
        diff(table, c["kind"], r["rt"]["dump"], c["a"], keeps["keepS"], kept)
        for p in full - kept:
            dropped[p] = dropped.get(p, 0) + 1
    chk.part("not_serialised_by_carquet", **{k.replace(".", "_").replace(":", "_"): v for k, v in sorted(dropped.items())})
    return dropped


def _cpu():
    r = resource.getrusage(resource.RUSAGE_CHILDREN)
    return r.ru_utime + r.ru_stime


def run(chk, tier, replay):
    binary = common.build_harness("h_thrift")
    t0, c0 = time.time(), _cpu()
    phases = {}

    def phase(name):
        nonlocal t0, c0
        phases[name] = {"wall_s": round(time.time() - t0, 1), "cpu_s": round(_cpu() - c0, 1)}
        t0, c0 = time.time(), _cpu()
    chk.assumptions += [
        "ThriftCompact/ParquetThrift transcribe thrift-compact-protocol.md and parquet.thrift; self-checked by MC_ThriftSelf "
        "(round trip under all 32 styles, known vectors, truncation) and per generated variant (Abs(TParse(TSer)) = case)",
        "abstract records model optional fields the way carquet's structs can express them: 'dflt' fields do not distinguish "
        "absent from 0 / empty / IDL default (type_length, num_children, scale, precision, min/max binaries, key-value lists, "
        "is_compressed, is_sorted); schema names and key/values contain no NUL byte (char*)",
        "file metadata has no bytes_read output: consumed = n is witnessed by 'n bytes parse, n-1 bytes do not' (prefix-monotone parser)",
        "unknown-field nesting deeper than 16 may be rejected cleanly (implementation limit), it must not fault",
    ]
    r = common.tlc_ok(common.run_tlc("MC_ThriftSelf", workers=2, want_cases=False), "MC_ThriftSelf")
    if r.violated:
        raise common.InfraError("Thrift spec self-check failed: " + r.violated)
    chk.add_tlc(r)
    phase("self-check")

    if replay:
        with open(replay) as fh:
            obj = json.load(fh)
        table = obj["case"].pop("_table")
        cases = [obj["case"]]
    else:
        table, cases = generate(chk, tier)
    phase("generate")
    recs, faults, leaky, nlines = execute(table, cases, binary)
    phase("execute")
    stats, keeps = judge(chk, table, cases, recs, nproc=4 if DEV else (6 if tier == "quick" else 12))
    phase("validate")
    chk.part("phases", **phases)
    for cid in leaky:
        c = next((c for c in cases if cid.startswith(c["id"] + ".")), None)
        chk.violation("leak:" + (c["kind"] if c else "?"), "leak in case " + cid, slim_case(c) if c else cid)
    for sig, what, rep in chk.violations:
        if isinstance(rep, dict):
            rep["_table"] = table
    dropped = observe_dropped(chk, table, cases, recs, keeps)

    nvar = 0
    for c, rec in zip(cases, recs):
        if rec.get("ab"):
            chk.count(("ab", c["fam"], c["point"]), True)
        for j, v in enumerate(c["vars"]):
            nvar += 1
            chk.count(("c", c["fam"], c["point"], v.get("desc"), v["sty"]), True)
    for c in (cases[0], cases[len(cases) // 2], cases[-1]):
        v = c["vars"][0]
        chk.sample({"id": c["id"], "kind": c["kind"], "point": c["point"], "variant": desc_of(v), "style": v["sty"],
                    "spec_bytes_hex": hexs(v["bytes"])[:160] if "bytes" in v else v["deep"]["n"]})
    chk.cov["traces_validated_against_impl"] += stats["events"]
    chk.part("trace", records=stats["events"], records_with_verdicts=stats["failed"], harness_calls=nlines,
             variants=nvar, crashes=len(faults))
    chk.cov["rule"] = ("one evaluation = one harness call judged by MC_ThriftTrace: per case one write+reparse (a,b) and one parse per "
                       "spec-encoded variant (c); distinct = distinct (family, parameter point, variant descriptor, style); "
                       "families: page headers (kind x crc x ints x stats x bool), FileMetaData axes (schema size, names, ints, "
                       "optionals, list lengths, stats, row groups) single (quick) / pairwise (thorough) + seeded random points, "
                       "all logical types, unknown fields (struct kind x position x payload of every wire type), deep nesting, "
                       "generic trees for the thrift_write_*/thrift_read_* primitives")
