"""Shared glue for the encoding checks (C11, C12, encodings part of C08).

Nothing in here decides a property. Expected values are the values TLC generated (round trip) or
the values the format modules assign to spec-written bytes; acceptance of carquet-written bytes is
TLC's verdict from MC_EncTrace. This module only translates TLC's JSON cases into harness lines,
parses harness output, and names mismatches (violation signatures).
"""
import concurrent.futures
import json
import os
import tempfile

from vlib import common
from vlib.common import hexs, InfraError

HARNESS = "h_enc"
FAMILIES = ("hyb", "bp", "bitw", "plain", "delta", "str", "bss", "dict")


# ------------------------------------------------------------------ small converters
def limbs_int(w):
    return sum(b << (8 * i) for i, b in enumerate(w))


def csv(vals):
    return ",".join(str(v) for v in vals) if vals else "-"


def uncsv(tok):
    return [] if tok == "-" else [int(x) for x in tok.split(",")]


def strs_tok(strs):
    if not strs:
        return "-"
    return ",".join(bytes(s).hex() if len(s) else "_" for s in strs)


def unstrs(tok):
    if tok == "-":
        return []
    return [[] if t == "_" else list(bytes.fromhex(t)) for t in tok.split(",")]


def unhex_list(tok):
    return [] if tok == "-" else list(bytes.fromhex(tok))


def hyb_values(c):
    """hybrid / bit-packing case -> list of python ints"""
    if "vals" in c:
        return list(c["vals"])
    return [limbs_int(w) for w in c["w"]]


def flat(vals):
    out = []
    for v in vals:
        out.extend(v)
    return out


def chunks(flatbytes, k):
    return [flatbytes[i:i + k] for i in range(0, len(flatbytes), k)] if k else []


# ------------------------------------------------------------------ TLC runs
def cfg_text(consts, invariants=("EmitInv",), extra=""):
    lines = ["CONSTANTS"]
    for k, v in consts.items():
        lines.append(" %s = %s" % (k, v))
    lines += ["INIT Init", "NEXT Next"]
    for inv in invariants:
        lines.append("INVARIANT " + inv)
    lines.append("CHECK_DEADLOCK FALSE")
    return "\n".join(lines) + "\n" + extra


def tla_set(items):
    return "{" + ", ".join(('"%s"' % i) if isinstance(i, str) else str(i) for i in items) + "}"


def run_many(jobs, parallel=3):
    """jobs: list of (name, kwargs for common.run_tlc incl. 'module'). Runs them concurrently."""
    out = {}
    cap = os.environ.get("VERIF_TLC_CAP")         # development on a shared box: VERIF_TLC_CAP=4
    if cap:
        parallel = min(parallel, 2)
        jobs = [(n, dict(kw, workers=min(int(cap), kw.get("workers") or int(cap)))) for n, kw in jobs]
    with concurrent.futures.ThreadPoolExecutor(max_workers=parallel) as ex:
        futs = {}
        for name, kw in jobs:
            kw = dict(kw)
            mod = kw.pop("module")
            futs[ex.submit(common.run_tlc, mod, **kw)] = name
        for f in concurrent.futures.as_completed(futs):
            out[futs[f]] = f.result()
    return out


def selfcheck(chk, tier):
    """Format modules judge nothing before they have passed their own checks."""
    jobs = [("MC_HybridSelf", dict(module="MC_HybridSelf", workers=4, want_cases=False)),
            ("MC_EncSelf", dict(module="MC_EncSelf", cfg="MC_EncSelf_quick" if tier == "quick" else "MC_EncSelf",
                                workers=8, want_cases=False, timeout=1500))]
    res = run_many(jobs, parallel=2)
    for name, r in res.items():
        if r.error or r.rc != 0 or r.violated:
            raise InfraError("format self-check %s failed (rc=%s %s)\n%s" % (name, r.rc, r.violated, r.out[-2500:]))
        chk.add_tlc(r)
    chk.part("selfcheck", modules=sorted(res), states=sum(r.distinct for r in res.values()))


def gen_cases(module, families, thorough, workers=8, timeout=2400):
    r = common.run_tlc(module, constants_text=cfg_text({"Families": tla_set(families),
                                                        "Thorough": "TRUE" if thorough else "FALSE"}),
                       workers=workers, timeout=timeout)
    if r.error or r.rc != 0:
        raise InfraError("%s %s: TLC failed rc=%s\n%s" % (module, families, r.rc, r.out[-2500:]))
    return r


def refine_cfg(bw, alphabet, maxlen, variant, emit):
    return cfg_text({"BW": bw, "Alphabet": tla_set(alphabet), "MaxLen": maxlen, "Variant": '"%s"' % variant,
                     "EmitCases": "TRUE" if emit else "FALSE"},
                    invariants=("EmitInv",) if emit else ("Refine",))


def hist_cfg(mode, maxops, fullmax, zero_run, emit, sids):
    return cfg_text({"Mode": '"%s"' % mode, "MaxOps": maxops, "FullMax": fullmax, "ZeroRun": '"%s"' % zero_run,
                     "EmitCases": "TRUE" if emit else "FALSE", "StreamIds": tla_set(sids)},
                    invariants=("EmitInv",) if emit else ("Agree",))


# ------------------------------------------------------------------ trace validation (carquet bytes -> spec)
def trace_validate(events, groups=64, workers=None, timeout=2400):
    """events: list of dicts with 'id', 'kind', fields, 'bytes'. Returns ({id: verdict}, TlcResult)."""
    if not events:
        return {}, None
    fd, path = tempfile.mkstemp(prefix="enc-trace-", suffix=".ndjson", dir=common.scratch_root())
    try:
        with os.fdopen(fd, "w") as fh:
            for e in events:
                fh.write(json.dumps(e, separators=(",", ":")) + "\n")
        g = max(1, min(groups, len(events)))
        if os.environ.get("VERIF_TLC_CAP"):
            workers = int(os.environ["VERIF_TLC_CAP"])
        r = common.run_tlc("MC_EncTrace", constants_text=cfg_text({"Groups": g}, invariants=("Verdict",)),
                           env={"TRACE": path}, workers=workers, timeout=timeout)
        if r.error or r.rc != 0:
            raise InfraError("MC_EncTrace failed rc=%s\n%s" % (r.rc, r.out[-2500:]))
        verdicts = {v["id"]: v for v in r.cases if "id" in v}
        if len(verdicts) != len(events) or r.distinct != 1 + g + len(events):
            raise InfraError("MC_EncTrace judged %d of %d events (distinct=%d)" % (len(verdicts), len(events), r.distinct))
        return verdicts, r
    finally:
        try:
            os.unlink(path)
        except OSError:
            pass


# ------------------------------------------------------------------ case -> harness line(s)
PLAIN_W = {1: 4, 2: 8, 3: 12, 4: 4, 5: 8}


def case_key(c):
    """identity of a case for the distinct count"""
    k = c["kind"]
    if k == "hyb":
        return (k, c["bw"], tuple(hyb_values(c)))
    if k == "bp":
        return (k, c["bw"], tuple(hyb_values(c)))
    if k == "bitw":
        return (k, tuple((i["w"], limbs_int(i["v"])) for i in c["items"]))
    if k == "plain":
        return (k, c["t"], c["tlen"], json.dumps(c["vals"]))
    if k == "delta":
        return (k, c["L"], json.dumps(c["vals"]))
    if k == "str":
        return (k, json.dumps(c["strs"]))
    if k == "bss":
        return (k, c["K"], json.dumps(c["vals"]))
    if k == "dict":
        return (k, c["t"], json.dumps(c["vals"]))
    return (k, json.dumps(c, sort_keys=True))


def case_len(c):
    k = c["kind"]
    if k in ("hyb", "bp"):
        return len(c.get("vals", c.get("w", [])))
    if k == "bitw":
        return len(c["items"])
    if k == "str":
        return len(c["strs"])
    return len(c["vals"])


def roundtrip_lines(cid, c):
    """harness lines (ids cid, cid+'L', ...) for encode-then-decode of one generated case"""
    k = c["kind"]
    if k == "hyb":
        vals = hyb_values(c)
        lines = ["%s rle_rt %d %s" % (cid, c["bw"], csv(vals))]
        if c["bw"] <= 15:
            lines.append("%sL lvl_rt %d %s" % (cid, c["bw"], csv(vals)))
        # the other encoder entry point: put_repeat per maximal run, then flush
        runs, ops = [], []
        for v in vals:
            if runs and runs[-1][0] == v:
                runs[-1][1] += 1
            else:
                runs.append([v, 1])
        ops = ["R%d:%d" % (v, n) for v, n in runs] + ["F"]
        lines.append("%sR rle_ops %d %s" % (cid, c["bw"], " ".join(ops)))
        return lines
    if k == "bp":
        vals = hyb_values(c)
        lines = ["%s bp_rt %d %s" % (cid, c["bw"], csv(vals))]
        if len(vals) == 8:
            lines.append("%sG bp8_rt %d %s" % (cid, c["bw"], csv(vals)))
        return lines
    if k == "bitw":
        return ["%s bw_rt %s" % (cid, ",".join("%d:%d" % (i["w"], limbs_int(i["v"])) for i in c["items"]) or "-")]
    if k == "plain":
        t = c["t"]
        if t == 6:
            return ["%s plain_rt 6 0 %d %s" % (cid, len(c["vals"]), strs_tok(c["vals"]))]
        payload = c["vals"] if t == 0 else flat(c["vals"])
        return ["%s plain_rt %d %d %d %s" % (cid, t, c["tlen"], len(c["vals"]), hexs(payload))]
    if k == "delta":
        return ["%s d%d_rt %d %s" % (cid, 32 if c["L"] == 4 else 64, len(c["vals"]), hexs(flat(c["vals"])))]
    if k == "str":
        return ["%sA dl_rt %s" % (cid, strs_tok(c["strs"])), "%sB ds_rt %s" % (cid, strs_tok(c["strs"]))]
    if k == "bss":
        K, n = c["K"], len(c["vals"])
        lines = ["%s bss_rt g %d %d %s" % (cid, K, n, hexs(flat(c["vals"])))]
        if K == 4:
            lines.append("%sF bss_rt f 4 %d %s" % (cid, n, hexs(flat(c["vals"]))))
        if K == 8:
            lines.append("%sD bss_rt d 8 %d %s" % (cid, n, hexs(flat(c["vals"]))))
        return lines
    if k == "dict":
        t = c["t"]
        if t == 6:
            return ["%s dict_rt 6 %s" % (cid, strs_tok(c["vals"]))]
        return ["%s dict_rt %d %s" % (cid, t, hexs(flat(c["vals"])))]
    raise InfraError("unknown case kind " + k)


def has_partial_group_before_long_run(vals):
    """Named predicate of the known encoder defect: some maximal run of >= 8 equal values starts (or
    the stream ends on it) while the number of literals pending since the last emitted run is not
    a multiple of 8."""
    pending, i, n = 0, 0, len(vals)
    while i < n:
        j = i
        while j < n and vals[j] == vals[i]:
            j += 1
        run = j - i
        if run >= 8:
            if pending % 8:
                return True
            pending = 0
        else:
            pending = (pending + run) % 8
        i = j
    return False


def signed(limbs):
    v = limbs_int(limbs)
    return v - (1 << (8 * len(limbs))) if limbs[-1] >= 128 else v


def delta_class(c):
    """Names the region of the DELTA case space a case lies in (a predicate of the values only):
    empty-sequence; block-delta-span>32-bits = within some block of 128 consecutive deltas
    (INT64: differences modulo 2^64 read as signed; INT32: differences of the values as integers)
    max - min needs more than 32 bits; narrow otherwise."""
    L, vals = c["L"], c["vals"]
    if not vals:
        return "empty-sequence"
    v = [signed(x) for x in vals]
    d = []
    for i in range(1, len(v)):
        x = v[i] - v[i - 1]
        if L == 8:
            x &= (1 << 64) - 1
            if x >= 1 << 63:
                x -= 1 << 64
        d.append(x)
    for b in range(0, len(d), 128):
        blk = d[b:b + 128]
        if max(blk) - min(blk) >= 1 << 32:
            return "block-delta-span>32-bits"
    return "narrow"


# ------------------------------------------------------------------ result comparison (round trip)
class Mismatch:
    def __init__(self, sig, what):
        self.sig, self.what = sig, what


def check_roundtrip(cid, c, res):
    """Compare harness output with the generated values. Returns (mismatches, events, info).
    events: trace events (carquet-written bytes) for TLC to judge; info: dict for evidence."""
    k = c["kind"]
    mm, events, info = [], [], {}

    def ev(suffix, **kw):
        e = {"id": cid + suffix, "kind": k}
        e.update(kw)
        events.append(e)

    if k == "hyb":
        vals = hyb_values(c)
        bw = c["bw"]
        n = len(vals)
        r = res.get(cid)
        defect = has_partial_group_before_long_run(vals)
        if r and "pad" in c and int(r[0]) == 0:
            # the name of the known defect is only used when the modelled "pad" policy explains the
            # failure exactly: carquet wrote the very bytes the model of that policy writes, and TLC
            # found that those bytes do not parse back to the values
            defect = defect and unhex_list(r[1]) == c["pad"]["bytes"] and not c["pad"]["refines"]
        tag = "rle-enc:partial-literal-group-then-run>=8" if defect else "rle:roundtrip-values"
        base = {"bw": bw, "vals": c["vals"]} if "vals" in c else {"bw": bw, "w": c["w"]}
        if r:
            est, hx, dn, dv = int(r[0]), r[1], int(r[2]), uncsv(r[3])
            info["bytes"] = hx
            if est != 0:
                mm.append(Mismatch("rle-enc:status", "encode_all status %d for %d values bw=%d" % (est, n, bw)))
            else:
                ev("", bytes=unhex_list(hx), **base)
                if dn != n or dv != vals:
                    mm.append(Mismatch(tag, "decode_all(encode_all(v)) != v: bw=%d v=%s -> bytes %s -> %d values %s" % (
                        bw, vals[:40], hx[:80], dn, dv[:40])))
        rl = res.get(cid + "L")
        if rl:
            est, hx, dn, dv, pn, pcons, pv = int(rl[0]), rl[1], int(rl[2]), uncsv(rl[3]), int(rl[4]), int(rl[5]), uncsv(rl[6])
            nbytes = 0 if hx == "-" else len(hx) // 2
            if est == 0:
                if r and hx != r[1]:
                    ev("L", bytes=unhex_list(hx), **base)      # a different stream: judged separately
                if dn != n or dv != vals:
                    mm.append(Mismatch(tag if defect else "rle-levels:roundtrip-values",
                                       "decode_levels(encode_levels(v)) != v: bw=%d v=%s -> %s -> %d %s" % (bw, vals[:40], hx[:80], dn, dv[:40])))
                if pn != n or pv != vals:
                    mm.append(Mismatch(tag if defect else "rle-levels-prefixed:roundtrip-values",
                                       "decode_levels_prefixed != v: bw=%d v=%s -> %d %s" % (bw, vals[:40], pn, pv[:40])))
                if pcons != 4 + nbytes:
                    mm.append(Mismatch("rle-levels-prefixed:consumed", "bytes_consumed %d, block is 4+%d" % (pcons, nbytes)))
            else:
                mm.append(Mismatch("rle-enc:status", "encode_levels status %d" % est))
        rr = res.get(cid + "R")
        if rr and r:
            if int(rr[0]) != 0 or rr[1] != r[1]:
                # put_repeat must be Put x count: same stream as encode_all
                mm.append(Mismatch("rle-enc:put_repeat-differs-from-put",
                                   "put_repeat stream %s differs from put stream %s for %s" % (rr[1][:80], r[1][:80], vals[:40])))
                if int(rr[0]) == 0 and rr[1] not in ("-", ""):
                    ev("L", bytes=unhex_list(rr[1]), **base)      # a different stream: the specification judges it too (C12)
        return mm, events, info

    if k == "bp":
        vals = hyb_values(c)
        bw, n = c["bw"], len(vals)
        r = res.get(cid)
        if r:
            wr, hx, rd, dv = int(r[0]), r[1], int(r[2]), uncsv(r[3])
            need = (n * bw + 7) // 8
            info["bytes"] = hx
            if wr != need:
                mm.append(Mismatch("bitpack:reported-written", "bitpack_32 returned %d for %d values of %d bits (%d bytes)" % (wr, n, bw, need)))
            else:
                ev("", bw=bw, w=c["w"], bytes=unhex_list(hx))
            if rd != need:
                mm.append(Mismatch("bitunpack:reported-consumed", "bitunpack_32 returned %d, packed size is %d" % (rd, need)))
            if dv != vals:
                mm.append(Mismatch("bitpack:roundtrip-values", "bitunpack_32(bitpack_32(v)) != v: bw=%d v=%s got %s" % (bw, vals[:20], dv[:20])))
        r = res.get(cid + "G")
        if r:
            if uncsv(r[1]) != vals:
                mm.append(Mismatch("bitpack8:roundtrip-values", "bitunpack8_32(bitpack8_32(v)) != v: bw=%d v=%s got %s" % (bw, vals, r[1])))
            elif unhex_list(r[0]) != c["bytes"]:
                ev("G", bw=bw, w=c["w"], bytes=unhex_list(r[0]))
        return mm, events, info

    if k == "bitw":
        r = res.get(cid)
        items = c["items"]
        vals = [limbs_int(i["v"]) for i in items]
        if r:
            nb, hx, dv = int(r[0]), r[1], uncsv(r[2])
            bits = sum(i["w"] for i in items)
            if nb != (bits + 7) // 8:
                mm.append(Mismatch("bit-writer:reported-written", "bytes_written %d for %d bits" % (nb, bits)))
            else:
                ev("", items=items, bytes=unhex_list(hx))
            if dv != vals:
                first = next((i for i, (a, b) in enumerate(zip(dv, vals)) if a != b), None)
                mm.append(Mismatch("bit-writer:roundtrip-values",
                                   "bit_reader(bit_writer(items)) differs at item %s: widths %s wrote %s read %s" % (
                                       first, [i["w"] for i in items][:12], vals[:8], dv[:8])))
        return mm, events, info

    if k == "plain":
        r = res.get(cid)
        t, tlen, vals = c["t"], c["tlen"], c["vals"]
        n = len(vals)
        if r:
            est, hx = int(r[0]), r[1]
            if est != 0:
                mm.append(Mismatch("plain-enc:status", "encode_plain type %d status %d n=%d" % (t, est, n)))
                return mm, events, info
            ev("", t=t, tlen=tlen, vals=vals, bytes=unhex_list(hx))
            nbytes = 0 if hx == "-" else len(hx) // 2
            for name, ret, payload in (("typed", int(r[2]), r[3]), ("generic", int(r[4]), r[5])):
                if t == 6:
                    got = unstrs(payload)
                elif t == 0:
                    got = unhex_list(payload)
                else:
                    got = chunks(unhex_list(payload), PLAIN_W.get(t, tlen))
                if ret != nbytes:
                    mm.append(Mismatch("plain-dec:reported-consumed", "decode_plain(%s) type %d returned %d, encoded size %d" % (name, t, ret, nbytes)))
                elif got != vals:
                    mm.append(Mismatch("plain:roundtrip-values", "decode_plain(%s, encode_plain(v)) != v type %d n=%d" % (name, t, n)))
        return mm, events, info

    if k == "delta":
        r = res.get(cid)
        L, vals = c["L"], c["vals"]
        n = len(vals)
        cls = delta_class(c)
        if r:
            est, wr, hx, dst, cons, out = int(r[0]), int(r[1]), r[2], int(r[3]), int(r[4]), r[5]
            if est != 0:
                mm.append(Mismatch("delta-enc:status:" + cls, "delta encode L=%d n=%d status %d" % (L, n, est)))
                return mm, events, info
            nbytes = 0 if hx == "-" else len(hx) // 2
            info["bytes"] = hx
            ev("", L=L, vals=vals, bytes=unhex_list(hx))
            if dst != 0:
                mm.append(Mismatch("delta:roundtrip-status:" + cls, "decode(encode(v)) fails with status %d: L=%d n=%d (%s)" % (dst, L, n, cls)))
            else:
                got = chunks(unhex_list(out), L)
                if got != vals:
                    mm.append(Mismatch("delta:roundtrip-values:" + cls, "decode(encode(v)) != v: L=%d n=%d (%s)" % (L, n, cls)))
                if cons != nbytes:
                    mm.append(Mismatch("delta-dec:reported-consumed:" + cls, "bytes_consumed %d, encoder wrote %d (L=%d n=%d)" % (cons, nbytes, L, n)))
        return mm, events, info

    if k == "str":
        strs = c["strs"]
        n = len(strs)
        for suf, name in (("A", "dlen"), ("B", "dstr")):
            r = res.get(cid + suf)
            if not r:
                continue
            est, hx, dst, cons, out = int(r[0]), r[1], int(r[2]), int(r[3]), r[4]
            if est != 0:
                sig = "%s-enc:refuses-empty-sequence" % name if n == 0 else "%s-enc:status" % name
                mm.append(Mismatch(sig, "%s encode of %d strings returns status %d" % (name, n, est)))
                continue
            nbytes = 0 if hx == "-" else len(hx) // 2
            events.append({"id": cid + suf, "kind": name, "strs": strs, "bytes": unhex_list(hx)})
            if dst != 0:
                mm.append(Mismatch("%s:roundtrip-status" % name, "%s decode(encode(v)) status %d n=%d" % (name, dst, n)))
            else:
                if unstrs(out) != strs:
                    mm.append(Mismatch("%s:roundtrip-values" % name, "%s decode(encode(v)) != v n=%d pattern %s" % (name, n, c.get("k"))))
                if cons != nbytes:
                    mm.append(Mismatch("%s-dec:reported-consumed" % name, "%s bytes_consumed %d, encoder wrote %d" % (name, cons, nbytes)))
        return mm, events, info

    if k == "bss":
        K, vals = c["K"], c["vals"]
        n = len(vals)
        for suf, name in (("", "generic"), ("F", "float"), ("D", "double")):
            r = res.get(cid + suf)
            if not r:
                continue
            est, wr, hx, dst, out = int(r[0]), int(r[1]), r[2], int(r[3]), r[4]
            if est != 0:
                mm.append(Mismatch("bss-enc:status", "byte_stream_split encode(%s) K=%d n=%d status %d" % (name, K, n, est)))
                continue
            if wr != n * K:
                mm.append(Mismatch("bss-enc:reported-written", "bytes_written %d for %d x %d" % (wr, n, K)))
            events.append({"id": cid + suf, "kind": "bss", "K": K, "vals": vals, "bytes": unhex_list(hx)})
            if dst != 0 or chunks(unhex_list(out), K) != vals:
                mm.append(Mismatch("bss:roundtrip-values", "byte_stream_split decode(encode(v)) != v (%s) K=%d n=%d status %d" % (name, K, n, dst)))
        return mm, events, info

    if k == "dict":
        r = res.get(cid)
        t, vals = c["t"], c["vals"]
        n = len(vals)
        if r:
            est, dhx, ihx = int(r[0]), r[1], r[2]
            if est != 0:
                mm.append(Mismatch("dict-enc:status", "dictionary encode type %d status %d" % (t, est)))
                return mm, events, info
            info["dict_drift"] = unhex_list(dhx) != c["dict"]
            e = {"id": cid, "kind": "dict", "t": t, "vals": vals, "dict": unhex_list(dhx), "idx": unhex_list(ihx)}
            if t == 6:
                e["dcount"] = len({tuple(v) for v in vals})
            events.append(e)
            idx = unhex_list(ihx)
            defect = False
            if t != 6:
                dst, out = int(r[3]), r[4]
                got = chunks(unhex_list(out), PLAIN_W[t]) if dst == 0 else None
                if dst != 0 or got != vals:
                    # the index stream is written by the hybrid encoder: inherit its known defect's name
                    d, order = {}, []
                    for v in vals:
                        if tuple(v) not in d:
                            d[tuple(v)] = len(d)
                        order.append(d[tuple(v)])
                    defect = has_partial_group_before_long_run(order)
                    mm.append(Mismatch("rle-enc:partial-literal-group-then-run>=8" if defect else "dict:roundtrip-values",
                                       "dictionary decode(encode(v)) != v: type %d, %d values, %d distinct, status %d" % (t, n, len(d), dst)))
            info["idx_len"] = len(idx)
        return mm, events, info

    raise InfraError("unknown case kind " + k)


def trace_signature(c, verdict, got_bytes=None):
    """name a TLC rejection of carquet-written bytes"""
    k = c["kind"]
    why = verdict.get("why", "")
    if k == "hyb":
        if has_partial_group_before_long_run(hyb_values(c)) and ("pad" not in c or (got_bytes == c["pad"]["bytes"] and not c["pad"]["refines"])):
            return "rle-enc:partial-literal-group-then-run>=8"
        return "rle-enc:stream-rejected:" + why
    if k == "dict":
        d, order = {}, []
        for v in c["vals"]:
            if tuple(v) not in d:
                d[tuple(v)] = len(d)
            order.append(d[tuple(v)])
        if has_partial_group_before_long_run(order):
            return "rle-enc:partial-literal-group-then-run>=8"
        return "dict-enc:stream-rejected:" + why
    if k == "delta":
        cls = delta_class(c)
        if cls == "empty-sequence":
            return "delta-enc:empty-sequence-without-header"
        if cls == "block-delta-span>32-bits":
            return "delta-enc:wide-deltas-byte-aligned"
        return "delta-enc:stream-rejected:%s:%s" % (cls, why)
    if k == "bitw":
        return "bit-writer:accumulator-overflow"
    if k == "str":
        return "delta-strings-enc:stream-rejected:" + why
    return "%s-enc:stream-rejected:%s" % (k, why)


def fault_signature(prefix, f):
    return "%s:%s" % (prefix, f.signature())


# ------------------------------------------------------------------ grouped harness execution (fault-heavy explorations)
def run_grouped(binary, lines, group_of, procs=4, batch=300, max_same=25):
    """Run harness lines in batches, several harness processes at a time. Lines are grouped by
    group_of(line); once one group has produced max_same faults with the same signature, the rest of
    that group is skipped (and counted) - thousands of repetitions of one crash add nothing and each
    costs a sanitizer process restart. Returns (results, faults, leaky_ids, skipped_count)."""
    groups = {}
    for ln in lines:
        groups.setdefault(group_of(ln), []).append(ln)
    results, faults, leaky = {}, [], []
    skipped = 0
    work = []          # (group, batch lines)
    for g, ls in groups.items():
        for i in range(0, len(ls), batch):
            work.append((g, ls[i:i + batch]))
    sigcount = {}
    dead = set()

    def one(item):
        g, ls = item
        if g in dead:
            return g, ls, None
        # one decoder call on a few hundred bytes: 10 s of wall time is a hang (watchdog inside the harness)
        return g, ls, common.run_harness_leaks(binary, ls, leak_every=512, per_case_timeout=30.0, env={"VH_CASE_TIMEOUT": "10"})

    with concurrent.futures.ThreadPoolExecutor(max_workers=procs) as ex:
        for g, ls, out in ex.map(one, work):
            if out is None:
                skipped += len(ls)
                continue
            r, f, lk = out
            results.update(r)
            faults.extend(f)
            leaky.extend(lk)
            for x in f:
                k = (g, x.signature())
                sigcount[k] = sigcount.get(k, 0) + 1
                # hangs are expensive (each costs a whole time budget): three of one kind retire the group
                if sigcount[k] >= (3 if x.kind == "hang" else max_same):
                    dead.add(g)
    return results, faults, leaky, skipped


# ------------------------------------------------------------------ --replay
def replay_file(chk, binary, path, alt_lines=None, judge_alt=None):
    """Re-execute one stored failing case (replays/<id>/*.json) on the current tree and judge it again."""
    with open(path) as fh:
        d = json.load(fh)
    rep = d.get("case") or {}
    sig0 = d.get("signature", "replay")
    if isinstance(rep, str):
        rep = {"line": rep}
    case = rep.get("case")
    chk.cov["rule"] = "replay of one stored case"
    if "expected" in rep and "line" in rep:                       # a streaming history
        res, faults = common.run_harness(binary, [rep["line"]])
        got = res.get(rep["line"].split(" ", 1)[0], [])
        exp = rep["expected"]
        chk.count(("replay", rep["line"]), True)
        if faults or not all(e == g or (e == "h?" and g in ("h0", "h1")) for e, g in zip(exp, got)) or len(got) < len(exp):
            chk.violation(sig0, "replay: %s expected %s got %s" % (rep["line"], exp, got), rep)
        return
    if isinstance(case, dict) and case.get("kind") in FAMILIES and "selfok" not in case:      # round trip / encoder output
        lines = roundtrip_lines("r0", case)
        res, faults = common.run_harness(binary, lines)
        mm, events, _ = check_roundtrip("r0", case, res)
        chk.count(case_key(case), True)
        verdicts, tr = trace_validate(events, groups=1, workers=1)
        if tr:
            chk.add_tlc(tr)
        if chk.pid == "C11":
            for m in mm:
                chk.violation(m.sig, m.what, rep)
            for eid, v in verdicts.items():
                if not v["ok"] and v["why"].startswith("length:"):
                    chk.violation("%s-enc:encoded-size:%s" % (case["kind"], v["why"][7:]), "replay: " + v["why"], rep)
        else:
            for e in events:
                v = verdicts[e["id"]]
                if not v["ok"]:
                    chk.violation(trace_signature(case, v, e.get("bytes", e.get("idx"))), "replay: specification reader rejects carquet's output: %s" % v["why"], rep)
        for f in faults:
            chk.violation(fault_signature("enc:%s" % case["kind"], f), "replay: fault", rep)
        return
    if isinstance(case, dict) and "selfok" in case and alt_lines and judge_alt:                   # specification-written stream
        lines = alt_lines("r0", case)
        if case["kind"] == "hyb":
            lines.append("r0O rle_rt %d %s" % (case["bw"], csv(hyb_values(case))))
        res, faults = common.run_harness(binary, lines)
        chk.count(("replay", json.dumps(case, sort_keys=True)[:2000]), True)
        judge_alt("r0", case, res, lambda sig, what, cid, c: chk.violation(sig, "replay: " + what, rep), {})
        for f in faults:
            chk.violation(fault_signature("dec:%s" % case["kind"], f), "replay: fault", rep)
        return
    lines = rep.get("lines") or ([rep["line"]] if "line" in rep else [])
    if not lines:
        raise InfraError("replay file %s has no executable case" % path)
    res, faults = common.run_harness(binary, [ln for ln in lines if isinstance(ln, str)])
    chk.count(("replay", lines), True)
    for f in faults:
        chk.violation(sig0, "replay: %s" % f.signature(), rep)
