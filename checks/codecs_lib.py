"""Shared glue for the codec checks (C09, C10, decompressor part of C08).

Nothing here decides a property: expected results come from TLC evaluating spec/fmt/Snappy.tla,
spec/fmt/Lz4.tla and spec/sys/Codec.tla; this module only formats cases for harness/h_codec.c,
runs it in parallel and feeds recorded results back to TLC.
"""
import json
import os
import tempfile
from concurrent.futures import ThreadPoolExecutor

from vlib import common

REF_EXTRA = ("-DVH_REF", "-lsnappy", "-llz4")
# VERIF_PAR=<k> caps TLC workers and harness processes (shared development box)
PAR = int(os.environ.get("VERIF_PAR", "0") or 0)
NPROC = PAR if PAR > 0 else max(2, min(14, common.NCPU - 2))


def tlc_workers(w=None):
    if PAR > 0:
        return min(PAR, w) if w else PAR
    return w


# ---------------------------------------------------------------------------------------
# formatting
# ---------------------------------------------------------------------------------------

def rope_str(rope):
    """JSON rope (list of {"b": [..]} / {"n","s","o"}) -> harness syntax."""
    parts = []
    for ch in rope or []:
        if "b" in ch:
            if ch["b"]:
                parts.append("h" + bytes(ch["b"]).hex())
        elif ch["n"]:
            parts.append("f%d.%d.%d" % (ch["n"], ch["s"], ch["o"]))
    return ",".join(parts) if parts else "-"


def bytes_rope(bs):
    return "h" + bytes(bs).hex() if len(bs) else "-"


def desc_str(desc):
    parts = []
    for g in desc or []:
        if g["t"] == "L":
            if g["n"]:
                parts.append("L%d.%d" % (g["n"], g["s"]))
        elif g["t"] == "C":
            if g["n"]:
                parts.append("C%d.%d" % (g["n"], g["m"]))
        elif g["t"] == "V":
            if g["n"]:
                parts.append("V%d.%d" % (g["n"], g["s"]))
        elif g["len"]:
            parts.append("R%d.%d" % (g["off"], g["len"]))
    return ",".join(parts) if parts else "-"


def kv(tokens):
    """['a=1', 'b=x'] -> dict (ints where possible)."""
    d = {}
    for t in tokens:
        if "=" in t:
            k, v = t.split("=", 1)
            if k in ("xh", "dh", "h"):       # 16-digit hex hashes: an all-decimal one must stay a string
                d[k] = v
                continue
            try:
                d[k] = int(v)
            except ValueError:
                d[k] = v
    return d


# ---------------------------------------------------------------------------------------
# running
# ---------------------------------------------------------------------------------------

def run_parallel(binary, lines, nproc=None, per_case_timeout=30.0, leaks=True, costs=None, batch=400, cost_limit=6e8):
    """Run `lines` through several harness processes (a pool of workers taking small batches, so
    that common.run_harness's per-process time budget is never the limit).
    `costs` (optional, parallel to lines) bounds the estimated work per batch.
    Returns (results, faults, leaky_ids)."""
    lines = list(lines)
    nproc = min(nproc or NPROC, NPROC)
    batches, cur, acc = [], [], 0.0
    for i, ln in enumerate(lines):
        cur.append(ln)
        acc += costs[i] if costs else 0
        if len(cur) >= batch or acc >= cost_limit:
            batches.append(cur)
            cur, acc = [], 0.0
    if cur:
        batches.append(cur)
    results, faults, leaky = {}, [], []

    def work(chunk):
        if leaks:
            return common.run_harness_leaks(binary, chunk, per_case_timeout=per_case_timeout)
        r, f = common.run_harness(binary, chunk, per_case_timeout=per_case_timeout)
        return r, f, []

    if not batches:
        return results, faults, leaky
    with ThreadPoolExecutor(max_workers=min(nproc, len(batches))) as ex:
        for r, f, l in ex.map(work, batches):
            results.update(r)
            faults.extend(f)
            leaky.extend(l)
    return results, faults, leaky


_re_fill = None


def line_cost(line):
    """Approximate bytes a harness line makes the replayer touch (fill chunks + explicit hex)."""
    global _re_fill
    if _re_fill is None:
        import re
        _re_fill = re.compile(r"[f,:L](\d+)\.")
    return sum(int(x) for x in _re_fill.findall(line)) + len(line) // 2


def tlc_gen(module, constants, inv="EmitInv", what=None, timeout=1500, env=None, workers=None, simulate=None, depth=None):
    """Run a generator/validator spec with constants given as cfg text; InfraError unless clean."""
    cfgt = "CONSTANTS\n%s\nINIT Init\nNEXT Next\nINVARIANT %s\nCHECK_DEADLOCK FALSE\n" % (constants, inv)
    r = common.run_tlc(module, constants_text=cfgt, timeout=timeout, env=env, workers=tlc_workers(workers),
                       simulate=simulate, depth=depth)
    if r.violated:
        # the invariants of the generators are self-consistency checks of the specification
        raise common.InfraError("%s: spec self-consistency invariant %s violated\n%s" % (
            what or module, r.violated, _tail(r.out)))
    if simulate and r.rc in (0,):
        return r
    return common.tlc_ok(r, what or module)


def _tail(out, n=3000):
    return "\n".join(l[:300] for l in out.splitlines() if not l.startswith('"'))[-n:]


def write_ndjson(objs):
    fd, path = tempfile.mkstemp(prefix="cases-", suffix=".ndjson", dir=common.scratch_root())
    with os.fdopen(fd, "w") as fh:
        for o in objs:
            fh.write(json.dumps(o, separators=(",", ":")) + "\n")
    return path


def parallel(jobs, max_workers=8):
    """jobs: {name: thunk}. Runs them in threads; returns {name: result}; first exception propagates."""
    out = {}
    if PAR > 0:
        max_workers = min(max_workers, 2)      # shared box: at most two JVMs / harness pools at a time
    with ThreadPoolExecutor(max_workers=max_workers) as ex:
        futs = {name: ex.submit(fn) for name, fn in jobs.items()}
        for name, fu in futs.items():
            out[name] = fu.result()
    return out


def selfcheck_run(tier, workers=None):
    """Spec self-checks (no implementation involved). An error is an InfraError. Returns TlcResults."""
    def one(mod, consts, invs):
        cfgt = "CONSTANTS\n%s\nINIT Init\nNEXT Next\nINVARIANTS %s\nCHECK_DEADLOCK FALSE\n" % (consts, invs)
        r = common.run_tlc(mod, constants_text=cfgt, want_cases=False, timeout=900, workers=tlc_workers(workers))
        if r.violated or r.rc != 0 or r.error:
            raise common.InfraError("%s failed (spec error, not an alarm): %s\n%s" % (mod, r.violated or r.error, _tail(r.out)))
        return r
    res = parallel({
        "snappy": lambda: one("MC_SnappySelf", "MaxToks = %d" % (2 if tier == "quick" else 3), "RoundTrip DecodeLaw PrefixLaw Fixed"),
        "lz4": lambda: one("MC_Lz4Self", "MaxSeqs = %d" % (2 if tier == "quick" else 3), "RoundTrip DecodeLaw TruncLaw Fixed")})
    return [res["snappy"], res["lz4"]]


def selfcheck(chk, tier):
    rs = selfcheck_run(tier)
    for r in rs:
        chk.add_tlc(r)
    chk.part("spec-selfcheck", states=sum(r.distinct for r in rs))
    return rs


def fault_sig(prefix, f, last_byte=None):
    """Specific signature for a sanitizer / crash / hang fault. The faulting *statement* names the
    defect where it is recognisable (robust against line shifts), else sanitizer kind + function."""
    det = f.detail.split("@")[0]
    src = ""
    if "@" in f.detail and ":" in f.detail:
        fname, _, line = f.detail.split("@")[1].partition(":")
        for root, _, files in os.walk(os.path.join(common.REPO, "src")):
            if fname in files and line.isdigit():
                import linecache
                src = linecache.getline(os.path.join(root, fname), int(line))
                break
    if f.kind == "heap-buffer-overflow" and det == "carquet_snappy_decompress" and "tag >> 5" in src:
        return "snappy-dec:copy1-offset-oob-read"
    return "%s:%s:%s" % (prefix, f.kind, det)
