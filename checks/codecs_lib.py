"""Shared glue for the codec checks (C09, C10, decompressor part of C08).

Nothing here decides a property: expected results come from TLC evaluating spec/fmt/Snappy.tla,
spec/fmt/Lz4.tla and spec/sys/Codec.tla; this module only formats cases for harness/h_codec.c,
runs it in parallel and feeds recorded results back to TLC.
"""
import json
import os
import tempfile
from concurrent.futures import ThreadPoolExecutor

from vlib import common

REF_EXTRA = ("-DVH_REF", "-lsnappy", "-llz4")
NPROC = max(2, min(14, common.NCPU - 2))


# ---------------------------------------------------------------------------------------
# formatting
# ---------------------------------------------------------------------------------------

def rope_str(rope):
    """JSON rope (list of {"b": [..]} / {"n","s","o"}) -> harness syntax."""
    parts = []
    for ch in rope or []:
        if "b" in ch:
            if ch["b"]:
                parts.append("h" + bytes(ch["b"]).hex())
        elif ch["n"]:
            parts.append("f%d.%d.%d" % (ch["n"], ch["s"], ch["o"]))
    return ",".join(parts) if parts else "-"


def bytes_rope(bs):
    return "h" + bytes(bs).hex() if len(bs) else "-"


def desc_str(desc):
    parts = []
    for g in desc or []:
        if g["t"] == "L":
            if g["n"]:
                parts.append("L%d.%d" % (g["n"], g["s"]))
        elif g["len"]:
            parts.append("R%d.%d" % (g["off"], g["len"]))
    return ",".join(parts) if parts else "-"


def kv(tokens):
    """['a=1', 'b=x'] -> dict (ints where possible)."""
    d = {}
    for t in tokens:
        if "=" in t:
            k, v = t.split("=", 1)
            try:
                d[k] = int(v)
            except ValueError:
                d[k] = v
    return d


# ---------------------------------------------------------------------------------------
# running
# ---------------------------------------------------------------------------------------

def run_parallel(binary, lines, nproc=None, per_case_timeout=30.0, leaks=True):
    """Split `lines` over several harness processes. Returns (results, faults, leaky_ids)."""
    lines = list(lines)
    nproc = nproc or NPROC
    if len(lines) < 64:
        nproc = 1
    # interleave so that expensive neighbours are spread over the workers
    chunks = [lines[i::nproc] for i in range(nproc)]
    chunks = [c for c in chunks if c]
    results, faults, leaky = {}, [], []

    def work(chunk):
        if leaks:
            return common.run_harness_leaks(binary, chunk, per_case_timeout=per_case_timeout)
        r, f = common.run_harness(binary, chunk, per_case_timeout=per_case_timeout)
        return r, f, []

    with ThreadPoolExecutor(max_workers=len(chunks) or 1) as ex:
        for r, f, l in ex.map(work, chunks):
            results.update(r)
            faults.extend(f)
            leaky.extend(l)
    return results, faults, leaky


def tlc_gen(module, constants, inv="EmitInv", what=None, timeout=1500, env=None, workers=None, simulate=None, depth=None):
    """Run a generator/validator spec with constants given as cfg text; InfraError unless clean."""
    cfgt = "CONSTANTS\n%s\nINIT Init\nNEXT Next\nINVARIANT %s\nCHECK_DEADLOCK FALSE\n" % (constants, inv)
    r = common.run_tlc(module, constants_text=cfgt, timeout=timeout, env=env, workers=workers,
                       simulate=simulate, depth=depth)
    if r.violated:
        # the invariants of the generators are self-consistency checks of the specification
        raise common.InfraError("%s: spec self-consistency invariant %s violated\n%s" % (
            what or module, r.violated, _tail(r.out)))
    if simulate and r.rc in (0,):
        return r
    return common.tlc_ok(r, what or module)


def _tail(out, n=3000):
    return "\n".join(l[:300] for l in out.splitlines() if not l.startswith('"'))[-n:]


def write_ndjson(objs):
    fd, path = tempfile.mkstemp(prefix="cases-", suffix=".ndjson", dir=common.scratch_root())
    with os.fdopen(fd, "w") as fh:
        for o in objs:
            fh.write(json.dumps(o, separators=(",", ":")) + "\n")
    return path


def selfcheck(chk, tier):
    """Spec self-checks (no implementation involved). An error is an InfraError."""
    n = 0
    for mod, consts in (("MC_SnappySelf", "MaxToks = %d" % (2 if tier == "quick" else 3)),
                        ("MC_Lz4Self", "MaxSeqs = %d" % (2 if tier == "quick" else 3))):
        invs = {"MC_SnappySelf": "RoundTrip DecodeLaw PrefixLaw Fixed",
                "MC_Lz4Self": "RoundTrip DecodeLaw TruncLaw Fixed"}[mod]
        cfgt = "CONSTANTS\n%s\nINIT Init\nNEXT Next\nINVARIANTS %s\nCHECK_DEADLOCK FALSE\n" % (consts, invs)
        r = common.run_tlc(mod, constants_text=cfgt, want_cases=False, timeout=900)
        if r.violated or r.rc != 0 or r.error:
            raise common.InfraError("%s failed (spec error, not an alarm): %s\n%s" % (mod, r.violated or r.error, _tail(r.out)))
        chk.add_tlc(r)
        n += r.distinct
    chk.part("spec-selfcheck", states=n)
    return n


def fault_sig(prefix, f, last_byte=None):
    """Specific signature for a sanitizer / crash / hang fault."""
    if prefix.startswith("snappy") and f.kind == "heap-buffer-overflow" and "carquet_snappy_decompress" in f.detail \
            and last_byte is not None and (last_byte & 3) == 1:
        return "snappy-dec:copy1-offset-oob-read"
    det = f.detail.split("@")[0]
    return "%s:%s:%s" % (prefix, f.kind, det)
