/* h_sink.c - C18: the writer against a failing output sink, abort, and the prefix sweep.
 *
 * One case per line "<id> <cmd> <cmd> ...", one result token per command (as h_file.c).
 * The harness only drives the library and projects what happened; it never judges.
 *
 * Link with -Wl,--wrap=fopen,--wrap=fwrite,--wrap=fflush,--wrap=fclose : every stdio call that
 * libcarquet makes on the writer's stream goes through the wrappers below, which (a) log the
 * stream operation (kind, size, result, bytes the sink holds afterwards) and (b) make the
 * *device* refuse bytes while a failure point is active.  The wrappers never invent a result:
 * the real stdio function runs and its own return value is passed on (except the explicit
 * "close(2) fails" arm, see below).
 *
 * Sinks
 *   cookie  FILE* from fopencookie handed to carquet_writer_create_file; the cookie's write
 *           callback is the device: it stores accepted bytes and refuses by the armed rule.
 *           setvbuf: u = _IONBF, s<N> = _IOFBF with N bytes, d = stdio default.
 *   path    carquet_writer_create(path): a regular file (or a symlink to /dev/full); the device
 *           refuses through RLIMIT_FSIZE, lowered only while a stdio call on the writer's stream
 *           is running (SIGXFSZ ignored, write(2) then fails with EFBIG after a partial write).
 * Failure points (arm)
 *   n        none
 *   b<k>     the device holds at most k bytes            (disk full at byte offset k)
 *   o<j>     the device refuses every byte during the j-th stream operation (fwrite / fflush /
 *            fclose issued by the library on the writer's stream, counted from 1)
 *   c        path writers only: fclose runs and then reports EOF (a deferred write error
 *            reported by close(2))
 *   sticky=1 the condition persists once reached; sticky=0 it clears after the first refusal.
 *
 * Commands
 *   S:<namehex>:<type>:<rep>:<tlen>                      schema column
 *   W:c:<codec>:<page>:<buf>:<arm>:<sticky>              cookie writer
 *   W:p:<codec>:<page>:<path>:<arm>:<sticky>             path writer
 *   B:<col>:<nrows>:<defs|->:<valueshex>   G   C   A     write_batch / new_row_group / close / abort
 *        result  <letter>=<status>:<sinkfailed>:<accepted>:<ops>  ; C adds :<hex of the sink's
 *        bytes when it returned OK>:<fd delta>; A=ok:<exists>:<fd delta>:<accepted>:<ops>
 *        <ops> = stream operations the library issued during the call:
 *        <op><n>/<ok>/<accepted after>/<devfail>,...   op w=fwrite f=fflush c=fclose
 *   L                                                    dump the whole stream-operation log
 *   X:<dir>:<lo>:<hi>:<batch>:<filehex>                  open every prefix lo..hi-1 through fread,
 *        mmap and buffer (exact-size heap copy) in forked children (crash isolation);
 *        X=<mode>:<cut>:<verdict>;...   verdict e<code>[!] rejected (code as set, ! = message not
 *        terminated), o<rows>/<nrg>/<ncol> opened, x<text> crashed/hung, +l appended on a leak.
 */
#include "vh.h"
#include <carquet/carquet.h>
#include "reader/reader_internal.h"
#include <errno.h>
#include <signal.h>
#include <dirent.h>
#include <fcntl.h>
#include <sys/resource.h>
#include <sys/stat.h>
#include <sys/wait.h>

FILE* __real_fopen(const char*, const char*);
size_t __real_fwrite(const void*, size_t, size_t, FILE*);
int __real_fflush(FILE*);
int __real_fclose(FILE*);

#define MAXCOLS 64
typedef struct { char name[256]; int type, rep, tlen; } coldef_t;
static coldef_t g_cols[MAXCOLS];
static int g_ncols = 0;
static carquet_schema_t* g_schema = NULL;
static carquet_writer_t* g_writer = NULL;

/* ---------------------------------------------------------------------------- the sink */
typedef struct { char op; long n; int ok; long acc; int devfail; } oplog_t;
static struct {
    int kind;                 /* 'c' cookie, 'p' path, 0 none */
    FILE* stream;             /* the writer's stream (captured at fopen for path writers) */
    int capture_fopen;
    char path[4096];
    /* device */
    uint8_t* data; size_t n, cap;      /* cookie: accepted bytes */
    int armkind; long at; int sticky;  /* 'n','b','o','c' */
    int fired;                /* the failure condition was reached */
    int failed;               /* some device operation reported failure */
    long opno;                /* stream operations so far */
    int in_op;                /* refusing during the current op (arm o) */
    oplog_t* log; int nlog, caplog;
    int fds_before;
    char* vbuf;               /* setvbuf storage of the cookie stream (freed after the stream is closed) */
} S;

static int g_logged = 0;          /* stream operations already printed in a call token */

static int count_fds(void) {
    DIR* d = opendir("/proc/self/fd"); if (!d) return -1;
    int n = 0; while (readdir(d)) n++;
    closedir(d); return n;
}

static long sink_accepted(void) {
    if (S.kind == 'c') return (long)S.n;
    if (S.kind == 'p') { struct stat st; if (stat(S.path, &st) == 0 && S_ISREG(st.st_mode)) return (long)st.st_size; return 0; }
    return 0;
}

/* does the device refuse right now, and how many more bytes may it take (-1 = unlimited) */
static long device_room(void) {
    if (S.armkind == 'b') {
        if (!S.sticky && S.fired) return -1;
        long room = S.at - sink_accepted();
        return room < 0 ? 0 : room;
    }
    if (S.armkind == 'o') {
        if (S.in_op) return 0;
        return -1;
    }
    return -1;
}

static ssize_t ck_write(void* c, const char* buf, size_t size) {
    (void)c;
    long room = device_room();
    size_t take = size;
    if (room >= 0 && (size_t)room < size) take = (size_t)room;
    if (S.n + take > S.cap) { S.cap = (S.n + take) * 2 + 64; S.data = (uint8_t*)realloc(S.data, S.cap); }
    memcpy(S.data + S.n, buf, take); S.n += take;
    if (take < size) { S.fired = 1; S.failed = 1; errno = ENOSPC; }
    return (ssize_t)take;           /* 0 = error, short = error (glibc sets the error flag) */
}
static int ck_close(void* c) { (void)c; return 0; }

static void log_op(char op, long n, int ok, int devfail) {
    if (S.nlog == S.caplog) { S.caplog = S.caplog ? S.caplog * 2 : 64; S.log = (oplog_t*)realloc(S.log, sizeof(oplog_t) * (size_t)S.caplog); }
    oplog_t* e = &S.log[S.nlog++]; e->op = op; e->n = n; e->ok = ok; e->acc = sink_accepted(); e->devfail = devfail;
}

/* run `real` on the writer's stream with the device condition applied */
static struct rlimit g_saved_lim;
static int op_begin(void) {
    S.opno++;
    S.in_op = (S.armkind == 'o') && (S.opno == S.at || (S.sticky && S.opno > S.at)) && !(S.fired && !S.sticky);
    if (S.kind == 'p') {
        long room = device_room();
        if (room >= 0) {
            getrlimit(RLIMIT_FSIZE, &g_saved_lim);
            struct rlimit l = g_saved_lim; l.rlim_cur = (rlim_t)(sink_accepted() + room);
            setrlimit(RLIMIT_FSIZE, &l);
            return 1;
        }
    }
    return 0;
}
static void op_end(int limited, char op, long n, int ok) {
    if (limited) setrlimit(RLIMIT_FSIZE, &g_saved_lim);
    int devfail = 0;
    if (S.kind == 'p') { if (!ok) { devfail = 1; S.failed = 1; S.fired = 1; } }
    else devfail = S.failed;
    S.in_op = 0;
    log_op(op, n, ok, S.kind == 'p' ? devfail : S.failed);
}

FILE* __wrap_fopen(const char* path, const char* mode) {
    FILE* f = __real_fopen(path, mode);
    if (S.capture_fopen && f) { S.stream = f; S.capture_fopen = 0; }
    return f;
}
size_t __wrap_fwrite(const void* p, size_t sz, size_t n, FILE* f) {
    if (!S.kind || f != S.stream) return __real_fwrite(p, sz, n, f);
    int lim = op_begin();
    size_t r = __real_fwrite(p, sz, n, f);
    op_end(lim, 'w', (long)(sz * n), r == n);
    return r;
}
int __wrap_fflush(FILE* f) {
    if (!S.kind || f != S.stream || !f) return __real_fflush(f);
    int lim = op_begin();
    int r = __real_fflush(f);
    op_end(lim, 'f', 0, r == 0);
    return r;
}
int __wrap_fclose(FILE* f) {
    if (!S.kind || f != S.stream) return __real_fclose(f);
    int lim = op_begin();
    int r = __real_fclose(f);
    S.stream = NULL;
    if (S.armkind == 'c' && r == 0) { r = EOF; errno = EIO; }
    op_end(lim, 'c', 0, r == 0);
    return r;
}

static void sink_reset(void) {
    free(S.data); free(S.log); free(S.vbuf); g_logged = 0;
    memset(&S, 0, sizeof S);
}

/* ---------------------------------------------------------------------------- plumbing (as h_file.c) */
static char* field(char* s, int k) {
    static char* buf[8]; static size_t cap[8];
    static int slot = 0;
    const char* p = s;
    for (int i = 0; i < k; i++) { p = strchr(p, ':'); if (!p) return NULL; p++; }
    const char* e = strchr(p, ':');
    size_t n = e ? (size_t)(e - p) : strlen(p);
    int sl = slot; slot = (slot + 1) % 8;
    if (cap[sl] < n + 1) { cap[sl] = n + 1; buf[sl] = (char*)realloc(buf[sl], cap[sl]); }
    memcpy(buf[sl], p, n); buf[sl][n] = 0;
    return buf[sl];
}

static void cmd_schema_col(char* t) {
    if (g_ncols >= MAXCOLS) { fputs(" S=toomany", stdout); return; }
    coldef_t* c = &g_cols[g_ncols];
    size_t n; uint8_t* nm = vh_unhex(field(t, 1), &n);
    if (n > 255) n = 255;
    memcpy(c->name, nm, n); c->name[n] = 0; free(nm);
    c->type = atoi(field(t, 2)); c->rep = atoi(field(t, 3)); c->tlen = atoi(field(t, 4));
    g_ncols++;
}

static int make_schema(void) {
    carquet_error_t err = CARQUET_ERROR_INIT;
    g_schema = carquet_schema_create(&err);
    if (!g_schema) return -1;
    for (int i = 0; i < g_ncols; i++) {
        carquet_status_t st = carquet_schema_add_column(g_schema, g_cols[i].name, (carquet_physical_type_t)g_cols[i].type,
            NULL, (carquet_field_repetition_t)g_cols[i].rep, g_cols[i].tlen);
        if (st != CARQUET_OK) return (int)st;
    }
    return 0;
}

static void parse_arm(const char* a, const char* sticky) {
    S.armkind = a[0]; S.at = (a[0] == 'b' || a[0] == 'o') ? atol(a + 1) : 0;
    S.sticky = sticky && sticky[0] == '1';
}

static void cmd_writer_create(char* t) {
    int r = make_schema();
    if (r != 0) { printf(" W=schema-err%d", r); return; }
    carquet_writer_options_t opt; carquet_writer_options_init(&opt);
    opt.compression = (carquet_compression_t)atoi(field(t, 2));
    opt.page_size = atoll(field(t, 3));
    char kind = field(t, 1)[0];
    carquet_error_t err = CARQUET_ERROR_INIT;
    sink_reset();
    S.fds_before = count_fds();
    parse_arm(field(t, 5), field(t, 6));
    if (kind == 'c') {
        cookie_io_functions_t io = { .read = NULL, .write = ck_write, .seek = NULL, .close = ck_close };
        FILE* f = fopencookie(&S, "w", io);
        if (!f) { fputs(" W=fopencookie-failed", stdout); return; }
        char* b = field(t, 4);
        if (b[0] == 'u') setvbuf(f, NULL, _IONBF, 0);
        else if (b[0] == 's') { size_t bn = (size_t)atol(b + 1); S.vbuf = (char*)malloc(bn ? bn : 1); setvbuf(f, S.vbuf, _IOFBF, bn); }   /* glibc ignores the size without a buffer */
        S.stream = f; S.kind = 'c';
        g_writer = carquet_writer_create_file(f, g_schema, &opt, &err);
    } else {
        snprintf(S.path, sizeof S.path, "%s", field(t, 4));
        S.kind = 'p'; S.capture_fopen = 1;
        g_writer = carquet_writer_create(S.path, g_schema, &opt, &err);
        S.capture_fopen = 0;
    }
    if (g_writer) fputs(" W=ok", stdout); else printf(" W=err%d", (int)err.code);
}

static carquet_status_t do_write_batch(char* t) {
    int col = atoi(field(t, 1));
    int64_t nrows = atoll(field(t, 2));
    char* defs = field(t, 3);
    size_t vlen; uint8_t* raw = vh_unhex(field(t, 4), &vlen);
    int16_t* dl = NULL;
    int64_t nn = nrows;
    if (!(defs[0] == '-' && defs[1] == 0)) {
        dl = (int16_t*)malloc(sizeof(int16_t) * (size_t)(nrows ? nrows : 1));
        nn = 0;
        int maxdef = (col >= 0 && col < g_ncols && g_cols[col].rep == CARQUET_REPETITION_OPTIONAL) ? 1 : 0;
        for (int64_t i = 0; i < nrows; i++) { dl[i] = (int16_t)(defs[i] - '0'); if (dl[i] == maxdef) nn++; }
    }
    int type = (col >= 0 && col < g_ncols) ? g_cols[col].type : CARQUET_PHYSICAL_INT32;
    void* vals; carquet_byte_array_t* ba = NULL; uint8_t** owned = NULL;
    if (type == CARQUET_PHYSICAL_BYTE_ARRAY) {
        ba = (carquet_byte_array_t*)malloc(sizeof(carquet_byte_array_t) * (size_t)(nn ? nn : 1));
        owned = (uint8_t**)calloc((size_t)(nn ? nn : 1), sizeof(uint8_t*));
        size_t off = 0;
        for (int64_t i = 0; i < nn; i++) {
            uint32_t l; memcpy(&l, raw + off, 4); off += 4;
            owned[i] = (uint8_t*)malloc(l ? l : 1);
            memcpy(owned[i], raw + off, l); off += l;
            ba[i].data = owned[i]; ba[i].length = (int32_t)l;
        }
        vals = ba;
    } else {
        vals = malloc(vlen ? vlen : 1);
        memcpy(vals, raw, vlen);
    }
    carquet_status_t st = carquet_writer_write_batch(g_writer, col, vals, nrows, dl, NULL);
    if (ba) { for (int64_t i = 0; i < nn; i++) free(owned[i]); free(owned); free(ba); } else free(vals);
    free(dl); free(raw);
    return st;
}

/* the stream operations logged since the last call token: <op><n>/<ok>/<accepted>/<devfail>,... */
static void put_ops(void) {
    if (g_logged >= S.nlog) { fputc('-', stdout); return; }
    for (int i = g_logged; i < S.nlog; i++) printf("%s%c%ld/%d/%ld/%d", i > g_logged ? "," : "", S.log[i].op, S.log[i].n, S.log[i].ok, S.log[i].acc, S.log[i].devfail);
    g_logged = S.nlog;
}
static void put_state(char letter, int st) { printf(" %c=%d:%d:%ld:", letter, st, S.failed, sink_accepted()); put_ops(); }

static void user_close_stream(void) {
    /* a FILE* writer leaves the stream to its owner: close it with the device unconstrained */
    if (S.kind == 'c' && S.stream) { FILE* f = S.stream; S.stream = NULL; __real_fclose(f); }
}

static void cmd_close(void) {
    if (!g_writer) { fputs(" C=nowriter", stdout); return; }
    carquet_status_t st = carquet_writer_close(g_writer); g_writer = NULL;
    long acc = sink_accepted(); int sf = S.failed;     /* what the sink holds when close() returns */
    printf(" C=%d:%d:%ld:", (int)st, sf, acc);
    put_ops(); fputc(':', stdout);
    if (st == CARQUET_OK) {
        if (S.kind == 'c') vh_puthex(S.data, (size_t)acc);
        else {
            uint8_t* b = (uint8_t*)malloc(acc > 0 ? (size_t)acc : 1); long got = 0;
            int fd = open(S.path, O_RDONLY);
            if (fd >= 0) { struct stat sb; if (fstat(fd, &sb) == 0 && S_ISREG(sb.st_mode)) { while (got < acc) { ssize_t k = read(fd, b + got, (size_t)(acc - got)); if (k <= 0) break; got += k; } } close(fd); }
            vh_puthex(b, (size_t)got); free(b);
        }
    } else fputc('-', stdout);
    printf(":%d", count_fds() - S.fds_before);
    user_close_stream();
}

static void cmd_abort(void) {
    if (!g_writer) { fputs(" A=nowriter", stdout); return; }
    long acc = sink_accepted();
    carquet_writer_abort(g_writer); g_writer = NULL;
    int exists = -1;
    if (S.kind == 'p') { struct stat st; exists = lstat(S.path, &st) == 0; }
    user_close_stream();
    printf(" A=ok:%d:%d:%ld:", exists, count_fds() - S.fds_before, acc); put_ops();
}

static void cmd_log(void) {
    fputs(" L=", stdout);
    if (!S.nlog) fputc('-', stdout);
    for (int i = 0; i < S.nlog; i++) printf("%s%c%ld:%d:%ld:%d", i ? "," : "", S.log[i].op, S.log[i].n, S.log[i].ok, S.log[i].acc, S.log[i].devfail);
}

/* ---------------------------------------------------------------------------- prefix sweep */
typedef struct { int state; int code; int nul; long long rows; int nrg, ncol; int leak; char sig[120]; } pres_t;
enum { P_TODO = 0, P_RUNNING, P_REJECTED, P_OPENED, P_CRASHED };

static void open_one(const uint8_t* file, size_t cut, int mode, const char* path, pres_t* r) {
    carquet_reader_options_t opt; carquet_reader_options_init(&opt);
    carquet_error_t err; memset(&err, 0x5a, sizeof err); err.code = CARQUET_OK;
    carquet_reader_t* rd = NULL; uint8_t* heap = NULL;
    r->state = P_RUNNING;
    if (mode == 2) {
        heap = (uint8_t*)malloc(cut);                     /* exact size: ASan sees any over-read */
        if (!heap) heap = (uint8_t*)malloc(1);
        if (cut) memcpy(heap, file, cut);
        rd = carquet_reader_open_buffer(heap, cut, &opt, &err);
    } else {
        opt.use_mmap = (mode == 1);
        rd = carquet_reader_open(path, &opt, &err);
    }
    if (rd) {
        r->rows = carquet_reader_num_rows(rd); r->nrg = carquet_reader_num_row_groups(rd); r->ncol = carquet_reader_num_columns(rd);
        carquet_reader_close(rd);
        r->state = P_OPENED;
    } else {
        r->code = (int)err.code; r->nul = memchr(err.message, 0, sizeof err.message) != NULL;
        r->state = P_REJECTED;
    }
    free(heap);
}

static void crash_signature(const char* errpath, int status, char* out, size_t outsz) {
    char kind[64] = "", frame[96] = "";
    FILE* f = __real_fopen(errpath, "rb");
    if (f) {
        static char buf[1 << 16]; size_t n = fread(buf, 1, sizeof buf - 1, f); buf[n] = 0; __real_fclose(f);
        char* p = strstr(buf, "AddressSanitizer: ");
        if (p) { p += 18; size_t k = strcspn(p, " \n"); if (k > 60) k = 60; memcpy(kind, p, k); kind[k] = 0; }
        for (p = buf; (p = strstr(p, " in ")) != NULL; p += 4) {
            char* eol = strchr(p, '\n'); if (!eol) eol = p + strlen(p);
            char saved = *eol; *eol = 0;                      /* look at this line only */
            int hit = strstr(p, "/src/") && !strstr(p, "/harness/");
            *eol = saved;
            if (hit) { size_t k = strcspn(p + 4, " \n"); if (k > 90) k = 90; memcpy(frame, p + 4, k); frame[k] = 0; break; }
        }
    }
    if (WIFSIGNALED(status)) snprintf(out, outsz, "%s:sig%d@%s", WTERMSIG(status) == SIGALRM ? "hang" : (kind[0] ? kind : "crash"), WTERMSIG(status), frame[0] ? frame : "?");
    else snprintf(out, outsz, "%s:exit%d@%s", kind[0] ? kind : "crash", WEXITSTATUS(status), frame[0] ? frame : "?");
}

static void cmd_prefixes(char* t) {
    const char* dir = field(t, 1);
    long lo = atol(field(t, 2)), hi = atol(field(t, 3)), batch = atol(field(t, 4));
    size_t flen; uint8_t* file = vh_unhex(field(t, 5), &flen);
    if (hi > (long)flen + 1) hi = (long)flen + 1;
    if (lo < 0) lo = 0;
    if (batch < 1) batch = 1;
    long ncut = hi > lo ? hi - lo : 0;
    size_t nres = (size_t)ncut * 3;
    pres_t* res = (pres_t*)mmap(NULL, (nres + 1) * sizeof(pres_t), PROT_READ | PROT_WRITE, MAP_SHARED | MAP_ANONYMOUS, -1, 0);
    char path[4200], errpath[4200];
    snprintf(path, sizeof path, "%s/pfx-%d.parquet", dir, (int)getpid());
    snprintf(errpath, sizeof errpath, "%s/pfx-%d.err", dir, (int)getpid());
    size_t next = 0;
    int percut = 0;
    fflush(stdout);
    while (next < nres) {
        pid_t pid = fork();
        if (pid == 0) {
            int efd = open(errpath, O_WRONLY | O_CREAT | O_TRUNC, 0600);
            if (efd >= 0) { dup2(efd, 2); close(efd); }
            alarm(30);
            size_t stop = next + (size_t)batch * 3; if (stop > nres) stop = nres;
            long curcut = -1;
            for (size_t i = next; i < stop; i++) {
                long cut = lo + (long)(i / 3); int mode = (int)(i % 3);
                if (cut != curcut) {
                    int fd = open(path, O_WRONLY | O_CREAT | O_TRUNC, 0600);
                    if (fd < 0) _exit(90);
                    size_t w = 0; while (w < (size_t)cut) { ssize_t k = write(fd, file + w, (size_t)cut - w); if (k <= 0) _exit(91); w += (size_t)k; }
                    close(fd); curcut = cut;
                }
                open_one(file, (size_t)cut, mode, path, &res[i]);
                /* LeakSanitizer stops the world through ptrace: once per batch; a batch that leaked
                 * is repeated with a check after every cut to attribute the leak */
                if (i + 1 == stop || (percut && mode == 2)) { if (VH_LEAKCHECK()) res[i].leak = 1; }
            }
            _exit(0);
        }
        int status = 0; waitpid(pid, &status, 0);
        size_t stop = next + (size_t)batch * 3; if (stop > nres) stop = nres;
        if (!percut && WIFEXITED(status) && WEXITSTATUS(status) == 0 && res[stop - 1].leak && stop - next > 3) {
            for (size_t j = next; j < stop; j++) memset(&res[j], 0, sizeof res[j]);
            percut = 1; continue;                       /* same batch again, leak check per cut */
        }
        percut = 0;
        size_t i = next;
        while (i < stop && (res[i].state == P_REJECTED || res[i].state == P_OPENED)) i++;
        if (i < stop) {
            if (WIFEXITED(status) && WEXITSTATUS(status) == 0) { /* cannot happen */ res[i].state = P_CRASHED; snprintf(res[i].sig, sizeof res[i].sig, "lost"); }
            else if (WIFEXITED(status) && (WEXITSTATUS(status) == 90 || WEXITSTATUS(status) == 91)) { fprintf(stderr, "h_sink: cannot write prefix file %s\n", path); exit(4); }
            else { res[i].state = P_CRASHED; crash_signature(errpath, status, res[i].sig, sizeof res[i].sig); }
            next = i + 1;
        } else next = stop;
    }
    unlink(path); unlink(errpath);
    fputs(" X=", stdout);
    static const char M[3] = { 'f', 'm', 'b' };
    for (size_t i = 0; i < nres; i++) {
        long cut = lo + (long)(i / 3);
        printf("%s%c:%ld:", i ? ";" : "", M[i % 3], cut);
        pres_t* r = &res[i];
        if (r->state == P_REJECTED) printf("e%d%s", r->code, r->nul ? "" : "!");
        else if (r->state == P_OPENED) printf("o%lld/%d/%d", r->rows, r->nrg, r->ncol);
        else printf("x%s", r->sig[0] ? r->sig : "?");
        if (r->leak) fputs("+l", stdout);
    }
    if (!nres) fputc('-', stdout);
    munmap(res, (nres + 1) * sizeof(pres_t));
    free(file);
}

/* ---------------------------------------------------------------------------- main */
static void reset_all(void) {
    if (g_writer) { carquet_writer_abort(g_writer); g_writer = NULL; }
    user_close_stream();
    if (g_schema) { carquet_schema_free(g_schema); g_schema = NULL; }
    g_ncols = 0;
    sink_reset();
}

int main(void) {
    vh_case_t c = {0};
    signal(SIGXFSZ, SIG_IGN);
    if (carquet_init() != CARQUET_OK) return 3;
    while (vh_next(&c)) {
        if (c.n < 1) continue;
        vh_begin(&c);
        fputs(c.tok[0], stdout);
        for (int i = 1; i < c.n; i++) {
            char* t = c.tok[i];
            switch (t[0]) {
                case 'S': cmd_schema_col(t); break;
                case 'W': cmd_writer_create(t); break;
                case 'B': if (g_writer) put_state('B', (int)do_write_batch(t)); else fputs(" B=nowriter", stdout); break;
                case 'G': if (g_writer) put_state('G', (int)carquet_writer_new_row_group(g_writer)); else fputs(" G=nowriter", stdout); break;
                case 'C': cmd_close(); break;
                case 'A': cmd_abort(); break;
                case 'L': cmd_log(); break;
                case 'X': cmd_prefixes(t); break;
                default: printf(" ?=%c", t[0]);
            }
        }
        reset_all();
        vh_end();
    }
    vh_finish(&c);
    return 0;
}
