/* h_thrift.c - replayer/recorder for C13 (Thrift metadata).
 *
 * The harness copies values between the line protocol and carquet's structs / Thrift API.
 * It never judges a result: every output is handed to the TLA+ trace checker MC_ThriftTrace.
 *
 * Input value grammar (tokens, depth-first, field order = ParquetThrift!Schema):
 *   integer  decimal            bool 0|1            i8 0..255 (raw byte)
 *   binary   hex | "-" (empty)  optional  "~" | "+" value      list  count elem*
 *   LogicalType  kind-name [params]   (DECIMAL scale precision | TIME/TIMESTAMP utc unit(0..2) |
 *                                      INTEGER bitwidth signed)
 * Commands:
 *   <id> fmw <flags> <FileMetaData tokens>
 *        fill parquet_file_metadata_t, parquet_write_file_metadata, parquet_parse_file_metadata of
 *        the produced bytes (exact-size copy), and once more of the bytes minus the last one
 *     -> <id> <write status> <hex bytes> <parse status> <consumed> <json dump>
 *        consumed = n if the n bytes parse and n-1 bytes do not (parsing is prefix-monotone, so
 *        this is exactly "n bytes were needed"), -1 if n-1 bytes parse as well, 0 if parse failed
 *   <id> phw <flags> <trail hex> <PageHeader tokens>      same for page headers; the parser is
 *        given bytes ++ trail and consumed = bytes_read
 *   <id> fmp <hex>                 parse only -> <id> <parse status> <consumed> <json>
 *   <id> php <hex> <trail hex>     parse only -> <id> <parse status> <bytes_read> <json>
 *   <id> phd <pre> <rep> <n> <mid> <rep2> <n2> <tail> <trail>   parse pre ++ rep^n ++ mid ++ rep2^n2 ++ tail
 *   <id> gw <script>               generic tree through thrift_write_*  -> <id> <status> <hex>
 *   <id> gr <hex>                  generic tree through thrift_read_*   -> <id> <status> <consumed> <json tree>
 *   --- C08 (decoder safety on arbitrary bytes); entry = fm | ph | gr (thrift_read_* walk) | sk (thrift_skip of a struct)
 *   <id> raw <entry> <hex>                          one call on an exact-size heap copy -> <id> <status> <consumed|-1>
 *   <id> bomb <entry> <pre> <rep> <n> <post>         one call on pre ++ rep^n ++ post      -> <id> <status> <consumed|-1> <size>
 *   <id> fz <entry> <hex base> <classes>             every mutant of MC_ThriftFuzz!Mutants(base) of the classes in
 *        <classes> (T truncations, S substitutions, I varint inflations, A appended byte), one call each
 *        -> <id> <calls> <ok> <err> <max over ok calls of consumed - size | na>
 *        with FZ_VERBOSE set, "M <class> <pos> <arg>" is printed (flushed) before every call
 * flags: a string of letters; 'N' = represent empty binaries / empty lists by NULL pointers.
 * JSON dump = the abstract record of ParquetThrift (integers as 8 two's complement bytes, strings
 * as byte arrays, optionals as [] / [v]); a NULL required string is printed as [-1].
 */
#include "vh.h"
#include <carquet/carquet.h>
#include "thrift/parquet_types.h"
#include "thrift/thrift_decode.h"
#include "thrift/thrift_encode.h"
#include "core/arena.h"
#include "core/buffer.h"

/* ------------------------------------------------------------------ tracked allocations */
static void** g_ptrs; static size_t g_np, g_cap;
static void* tmalloc(size_t n) {
    void* p = malloc(n ? n : 1);
    if (!p) { fprintf(stderr, "oom\n"); exit(3); }
    if (g_np == g_cap) { g_cap = g_cap ? g_cap * 2 : 256; g_ptrs = realloc(g_ptrs, g_cap * sizeof(void*)); }
    g_ptrs[g_np++] = p;
    return p;
}
static void* tcalloc(size_t n, size_t sz) { void* p = tmalloc(n * sz); memset(p, 0, n * sz ? n * sz : 1); return p; }
static void tfree_all(void) { for (size_t i = 0; i < g_np; i++) free(g_ptrs[i]); g_np = 0; }

/* ------------------------------------------------------------------ token cursor */
typedef struct { char** t; int n; int i; int bad; int null_empty; } cur_t;
static const char* nx(cur_t* c) { if (c->i >= c->n) { c->bad = 1; return "0"; } return c->t[c->i++]; }
static int64_t rd_i(cur_t* c) { return (int64_t)strtoll(nx(c), NULL, 10); }
static bool rd_b(cur_t* c) { return nx(c)[0] == '1'; }
static bool rd_opt(cur_t* c) { return nx(c)[0] == '+'; }
static uint8_t* rd_bin(cur_t* c, int32_t* len) {
    const char* s = nx(c);
    size_t n = (s[0] == '-' ) ? 0 : strlen(s) / 2;
    *len = (int32_t)n;
    if (n == 0 && c->null_empty) return NULL;
    uint8_t* b = tmalloc(n);
    for (size_t i = 0; i < n; i++) b[i] = (uint8_t)((vh_hexval(s[2*i]) << 4) | vh_hexval(s[2*i+1]));
    return b;
}
static char* rd_str(cur_t* c) {
    const char* s = nx(c);
    size_t n = (s[0] == '-') ? 0 : strlen(s) / 2;
    char* b = tmalloc(n + 1);
    for (size_t i = 0; i < n; i++) b[i] = (char)((vh_hexval(s[2*i]) << 4) | vh_hexval(s[2*i+1]));
    b[n] = 0;
    return b;
}
static void* rd_arr(cur_t* c, int32_t n, size_t sz) { if (n == 0 && c->null_empty) return NULL; return tcalloc((size_t)n, sz); }

/* ------------------------------------------------------------------ fill carquet structs */
static void fill_stats(cur_t* c, parquet_statistics_t* s) {
    memset(s, 0, sizeof(*s));
    s->max_deprecated = rd_bin(c, &s->max_deprecated_len);
    s->min_deprecated = rd_bin(c, &s->min_deprecated_len);
    if ((s->has_null_count = rd_opt(c))) s->null_count = rd_i(c);
    if ((s->has_distinct_count = rd_opt(c))) s->distinct_count = rd_i(c);
    s->max_value = rd_bin(c, &s->max_value_len);
    s->min_value = rd_bin(c, &s->min_value_len);
    if ((s->has_is_max_value_exact = rd_opt(c))) s->is_max_value_exact = rd_b(c);
    if ((s->has_is_min_value_exact = rd_opt(c))) s->is_min_value_exact = rd_b(c);
}
static void fill_kv(cur_t* c, parquet_key_value_t* kv) {
    kv->key = rd_str(c);
    kv->value = rd_opt(c) ? rd_str(c) : NULL;
}
static const char* LT_NAMES[] = { "NONE", "STRING", "MAP", "LIST", "ENUM", "DECIMAL", "DATE", "TIME", "TIMESTAMP",
                                  "INTEGER", "UNKNOWN", "JSON", "BSON", "UUID", "FLOAT16" };
static void fill_logical(cur_t* c, carquet_logical_type_t* lt) {
    memset(lt, 0, sizeof(*lt));
    const char* k = nx(c);
    for (int i = 0; i < 15; i++) if (!strcmp(k, LT_NAMES[i])) lt->id = (carquet_logical_type_id_t)i;
    switch (lt->id) {
        case CARQUET_LOGICAL_DECIMAL: lt->params.decimal.scale = (int32_t)rd_i(c); lt->params.decimal.precision = (int32_t)rd_i(c); break;
        case CARQUET_LOGICAL_TIME: lt->params.time.is_adjusted_to_utc = rd_b(c); lt->params.time.unit = (carquet_time_unit_t)rd_i(c); break;
        case CARQUET_LOGICAL_TIMESTAMP: lt->params.timestamp.is_adjusted_to_utc = rd_b(c); lt->params.timestamp.unit = (carquet_time_unit_t)rd_i(c); break;
        case CARQUET_LOGICAL_INTEGER: lt->params.integer.bit_width = (int8_t)(uint8_t)rd_i(c); lt->params.integer.is_signed = rd_b(c); break;
        default: break;
    }
}
static void fill_se(cur_t* c, parquet_schema_element_t* e) {
    memset(e, 0, sizeof(*e));
    if ((e->has_type = rd_opt(c))) e->type = (carquet_physical_type_t)rd_i(c);
    e->type_length = (int32_t)rd_i(c);
    if ((e->has_repetition = rd_opt(c))) e->repetition_type = (carquet_field_repetition_t)rd_i(c);
    e->name = rd_str(c);
    e->num_children = (int32_t)rd_i(c);
    if ((e->has_converted_type = rd_opt(c))) e->converted_type = (carquet_converted_type_t)rd_i(c);
    e->scale = (int32_t)rd_i(c);
    e->precision = (int32_t)rd_i(c);
    if ((e->has_field_id = rd_opt(c))) e->field_id = (int32_t)rd_i(c);
    if ((e->has_logical_type = rd_opt(c))) fill_logical(c, &e->logical_type);
}
static void fill_cm(cur_t* c, parquet_column_metadata_t* m) {
    memset(m, 0, sizeof(*m));
    m->type = (carquet_physical_type_t)rd_i(c);
    m->num_encodings = (int32_t)rd_i(c);
    m->encodings = rd_arr(c, m->num_encodings, sizeof(carquet_encoding_t));
    for (int32_t i = 0; i < m->num_encodings; i++) m->encodings[i] = (carquet_encoding_t)rd_i(c);
    m->path_len = (int32_t)rd_i(c);
    m->path_in_schema = rd_arr(c, m->path_len, sizeof(char*));
    for (int32_t i = 0; i < m->path_len; i++) m->path_in_schema[i] = rd_str(c);
    m->codec = (carquet_compression_t)rd_i(c);
    m->num_values = rd_i(c);
    m->total_uncompressed_size = rd_i(c);
    m->total_compressed_size = rd_i(c);
    m->num_key_value = (int32_t)rd_i(c);
    m->key_value_metadata = rd_arr(c, m->num_key_value, sizeof(parquet_key_value_t));
    for (int32_t i = 0; i < m->num_key_value; i++) fill_kv(c, &m->key_value_metadata[i]);
    m->data_page_offset = rd_i(c);
    if ((m->has_index_page_offset = rd_opt(c))) m->index_page_offset = rd_i(c);
    if ((m->has_dictionary_page_offset = rd_opt(c))) m->dictionary_page_offset = rd_i(c);
    if ((m->has_statistics = rd_opt(c))) fill_stats(c, &m->statistics);
    m->num_encoding_stats = (int32_t)rd_i(c);
    m->encoding_stats = rd_arr(c, m->num_encoding_stats, sizeof(parquet_page_encoding_stats_t));
    for (int32_t i = 0; i < m->num_encoding_stats; i++) {
        m->encoding_stats[i].page_type = (carquet_page_type_t)rd_i(c);
        m->encoding_stats[i].encoding = (carquet_encoding_t)rd_i(c);
        m->encoding_stats[i].count = (int32_t)rd_i(c);
    }
    if ((m->has_bloom_filter_offset = rd_opt(c))) m->bloom_filter_offset = rd_i(c);
    if ((m->has_bloom_filter_length = rd_opt(c))) m->bloom_filter_length = (int32_t)rd_i(c);
}
static void fill_cc(cur_t* c, parquet_column_chunk_t* k) {
    memset(k, 0, sizeof(*k));
    k->file_path = rd_opt(c) ? rd_str(c) : NULL;
    k->file_offset = rd_i(c);
    if ((k->has_metadata = rd_opt(c))) fill_cm(c, &k->metadata);
    if ((k->has_offset_index_offset = rd_opt(c))) k->offset_index_offset = rd_i(c);
    if ((k->has_offset_index_length = rd_opt(c))) k->offset_index_length = (int32_t)rd_i(c);
    if ((k->has_column_index_offset = rd_opt(c))) k->column_index_offset = rd_i(c);
    if ((k->has_column_index_length = rd_opt(c))) k->column_index_length = (int32_t)rd_i(c);
}
static void fill_rg(cur_t* c, parquet_row_group_t* g) {
    memset(g, 0, sizeof(*g));
    g->num_columns = (int32_t)rd_i(c);
    g->columns = rd_arr(c, g->num_columns, sizeof(parquet_column_chunk_t));
    for (int32_t i = 0; i < g->num_columns; i++) fill_cc(c, &g->columns[i]);
    g->total_byte_size = rd_i(c);
    g->num_rows = rd_i(c);
    if ((g->has_file_offset = rd_opt(c))) g->file_offset = rd_i(c);
    if ((g->has_total_compressed_size = rd_opt(c))) g->total_compressed_size = rd_i(c);
    if ((g->has_ordinal = rd_opt(c))) g->ordinal = (int16_t)rd_i(c);
}
static void fill_fm(cur_t* c, parquet_file_metadata_t* m) {
    memset(m, 0, sizeof(*m));
    m->version = (int32_t)rd_i(c);
    m->num_schema_elements = (int32_t)rd_i(c);
    m->schema = rd_arr(c, m->num_schema_elements, sizeof(parquet_schema_element_t));
    for (int32_t i = 0; i < m->num_schema_elements; i++) fill_se(c, &m->schema[i]);
    m->num_rows = rd_i(c);
    m->num_row_groups = (int32_t)rd_i(c);
    m->row_groups = rd_arr(c, m->num_row_groups, sizeof(parquet_row_group_t));
    for (int32_t i = 0; i < m->num_row_groups; i++) fill_rg(c, &m->row_groups[i]);
    m->num_key_value = (int32_t)rd_i(c);
    m->key_value_metadata = rd_arr(c, m->num_key_value, sizeof(parquet_key_value_t));
    for (int32_t i = 0; i < m->num_key_value; i++) fill_kv(c, &m->key_value_metadata[i]);
    m->created_by = rd_opt(c) ? rd_str(c) : NULL;
}
static void fill_ph(cur_t* c, parquet_page_header_t* h) {
    memset(h, 0, sizeof(*h));
    h->type = (carquet_page_type_t)rd_i(c);
    h->uncompressed_page_size = (int32_t)rd_i(c);
    h->compressed_page_size = (int32_t)rd_i(c);
    if ((h->has_crc = rd_opt(c))) h->crc = (int32_t)rd_i(c);
    if (rd_opt(c)) {
        parquet_data_page_header_t* d = &h->data_page_header;
        d->num_values = (int32_t)rd_i(c);
        d->encoding = (carquet_encoding_t)rd_i(c);
        d->definition_level_encoding = (carquet_encoding_t)rd_i(c);
        d->repetition_level_encoding = (carquet_encoding_t)rd_i(c);
        if ((d->has_statistics = rd_opt(c))) fill_stats(c, &d->statistics);
    }
    if (rd_opt(c)) {
        parquet_dictionary_page_header_t* d = &h->dictionary_page_header;
        d->num_values = (int32_t)rd_i(c);
        d->encoding = (carquet_encoding_t)rd_i(c);
        d->is_sorted = rd_b(c);
    }
    if (rd_opt(c)) {
        parquet_data_page_header_v2_t* d = &h->data_page_header_v2;
        d->num_values = (int32_t)rd_i(c);
        d->num_nulls = (int32_t)rd_i(c);
        d->num_rows = (int32_t)rd_i(c);
        d->encoding = (carquet_encoding_t)rd_i(c);
        d->definition_levels_byte_length = (int32_t)rd_i(c);
        d->repetition_levels_byte_length = (int32_t)rd_i(c);
        d->is_compressed = rd_b(c);
        if ((d->has_statistics = rd_opt(c))) fill_stats(c, &d->statistics);
    }
}

/* ------------------------------------------------------------------ JSON dump */
static void jw(int64_t v) {
    uint64_t u = (uint64_t)v;
    printf("[%u,%u,%u,%u,%u,%u,%u,%u]", (unsigned)(u & 255), (unsigned)((u >> 8) & 255), (unsigned)((u >> 16) & 255),
           (unsigned)((u >> 24) & 255), (unsigned)((u >> 32) & 255), (unsigned)((u >> 40) & 255),
           (unsigned)((u >> 48) & 255), (unsigned)((u >> 56) & 255));
}
static void jbytes(const uint8_t* p, size_t n) {
    putchar('[');
    for (size_t i = 0; i < n; i++) { if (i) putchar(','); printf("%u", (unsigned)p[i]); }
    putchar(']');
}
static void jstr(const char* s) { if (!s) { fputs("[-1]", stdout); return; } jbytes((const uint8_t*)s, strlen(s)); }
static void jbin(const uint8_t* p, int32_t n) { if (!p || n <= 0) { fputs("[]", stdout); return; } jbytes(p, (size_t)n); }
static void jbool(bool b) { fputs(b ? "true" : "false", stdout); }
#define K(name) fputs("\"" name "\":", stdout)
#define OPT_W(name, has, v) do { K(name); if (has) { putchar('['); jw((int64_t)(v)); putchar(']'); } else fputs("[]", stdout); } while (0)
#define OPT_B(name, has, v) do { K(name); if (has) { putchar('['); jbool(v); putchar(']'); } else fputs("[]", stdout); } while (0)
#define OPT_S(name, s) do { K(name); if (s) { putchar('['); jstr(s); putchar(']'); } else fputs("[]", stdout); } while (0)
#define W(name, v) do { K(name); jw((int64_t)(v)); } while (0)
#define C putchar(',')

static int g_fuzz;            /* C08 mode (arbitrary bytes) */
static int g_union_stats;     /* dumping statistics that live inside the page-header union */
static void dump_stats(const parquet_statistics_t* s) {
    if (g_fuzz && g_union_stats && !getenv("FZ_FOLLOW_UNION")) {
        /* On malformed input header->type may select a union member the parser did not fill (e.g. type =
         * DATA_V2 with a data_page_header field): its pointers are then reinterpreted integers. Following
         * them would be a fault of this dump, not of the entry point under test.
         * (FZ_FOLLOW_UNION=1 follows them anyway: shows what a consumer that trusts `type` would hit.) */
        fputs("{}", stdout); return;
    }
    putchar('{');
    K("max"); jbin(s->max_deprecated, s->max_deprecated_len); C;
    K("min"); jbin(s->min_deprecated, s->min_deprecated_len); C;
    OPT_W("nullCount", s->has_null_count, s->null_count); C;
    OPT_W("distinctCount", s->has_distinct_count, s->distinct_count); C;
    K("maxValue"); jbin(s->max_value, s->max_value_len); C;
    K("minValue"); jbin(s->min_value, s->min_value_len); C;
    OPT_B("maxExact", s->has_is_max_value_exact, s->is_max_value_exact); C;
    OPT_B("minExact", s->has_is_min_value_exact, s->is_min_value_exact);
    putchar('}');
}
static void dump_kv(const parquet_key_value_t* kv) {
    putchar('{'); K("key"); jstr(kv->key); C; OPT_S("value", kv->value); putchar('}');
}
static void dump_kvs(const parquet_key_value_t* kv, int32_t n) {
    putchar('[');
    if (kv) for (int32_t i = 0; i < n; i++) { if (i) C; dump_kv(&kv[i]); }
    putchar(']');
}
static const char* UNIT_NAMES[] = { "MILLIS", "MICROS", "NANOS" };
static void dump_logical(const carquet_logical_type_t* lt) {
    int id = (int)lt->id;
    printf("{\"k\":\"%s\"", (id >= 0 && id < 15) ? LT_NAMES[id] : "INVALID");
    switch (lt->id) {
        case CARQUET_LOGICAL_DECIMAL: C; W("scale", lt->params.decimal.scale); C; W("precision", lt->params.decimal.precision); break;
        case CARQUET_LOGICAL_TIME: C; K("utc"); jbool(lt->params.time.is_adjusted_to_utc); C;
            printf("\"unit\":\"%s\"", (unsigned)lt->params.time.unit < 3 ? UNIT_NAMES[lt->params.time.unit] : "INVALID"); break;
        case CARQUET_LOGICAL_TIMESTAMP: C; K("utc"); jbool(lt->params.timestamp.is_adjusted_to_utc); C;
            printf("\"unit\":\"%s\"", (unsigned)lt->params.timestamp.unit < 3 ? UNIT_NAMES[lt->params.timestamp.unit] : "INVALID"); break;
        case CARQUET_LOGICAL_INTEGER: C; printf("\"bitWidth\":%u", (unsigned)(uint8_t)lt->params.integer.bit_width); C;
            K("signed"); jbool(lt->params.integer.is_signed); break;
        default: break;
    }
    putchar('}');
}
static void dump_se(const parquet_schema_element_t* e) {
    putchar('{');
    OPT_W("type", e->has_type, (int32_t)e->type); C;
    W("typeLength", e->type_length); C;
    OPT_W("rep", e->has_repetition, (int32_t)e->repetition_type); C;
    K("name"); jstr(e->name); C;
    W("numChildren", e->num_children); C;
    OPT_W("conv", e->has_converted_type, (int32_t)e->converted_type); C;
    W("scale", e->scale); C;
    W("precision", e->precision); C;
    OPT_W("fieldId", e->has_field_id, e->field_id); C;
    K("logical"); if (e->has_logical_type) { putchar('['); dump_logical(&e->logical_type); putchar(']'); } else fputs("[]", stdout);
    putchar('}');
}
static void dump_cm(const parquet_column_metadata_t* m) {
    putchar('{');
    W("type", (int32_t)m->type); C;
    K("encodings"); putchar('[');
    if (m->encodings) for (int32_t i = 0; i < m->num_encodings; i++) { if (i) C; jw((int32_t)m->encodings[i]); }
    putchar(']'); C;
    K("path"); putchar('[');
    if (m->path_in_schema) for (int32_t i = 0; i < m->path_len; i++) { if (i) C; jstr(m->path_in_schema[i]); }
    putchar(']'); C;
    W("codec", (int32_t)m->codec); C;
    W("numValues", m->num_values); C;
    W("totalUncompressed", m->total_uncompressed_size); C;
    W("totalCompressed", m->total_compressed_size); C;
    K("kv"); dump_kvs(m->key_value_metadata, m->num_key_value); C;
    W("dataPageOffset", m->data_page_offset); C;
    OPT_W("indexPageOffset", m->has_index_page_offset, m->index_page_offset); C;
    OPT_W("dictPageOffset", m->has_dictionary_page_offset, m->dictionary_page_offset); C;
    K("stats"); if (m->has_statistics) { putchar('['); dump_stats(&m->statistics); putchar(']'); } else fputs("[]", stdout); C;
    K("encodingStats"); putchar('[');
    if (m->encoding_stats) for (int32_t i = 0; i < m->num_encoding_stats; i++) {
        if (i) C;
        putchar('{'); W("pageType", (int32_t)m->encoding_stats[i].page_type); C; W("encoding", (int32_t)m->encoding_stats[i].encoding); C;
        W("count", m->encoding_stats[i].count); putchar('}');
    }
    putchar(']'); C;
    OPT_W("bloomOffset", m->has_bloom_filter_offset, m->bloom_filter_offset); C;
    OPT_W("bloomLength", m->has_bloom_filter_length, m->bloom_filter_length);
    putchar('}');
}
static void dump_cc(const parquet_column_chunk_t* k) {
    putchar('{');
    OPT_S("filePath", k->file_path); C;
    W("fileOffset", k->file_offset); C;
    K("meta"); if (k->has_metadata) { putchar('['); dump_cm(&k->metadata); putchar(']'); } else fputs("[]", stdout); C;
    OPT_W("offsetIndexOffset", k->has_offset_index_offset, k->offset_index_offset); C;
    OPT_W("offsetIndexLength", k->has_offset_index_length, k->offset_index_length); C;
    OPT_W("columnIndexOffset", k->has_column_index_offset, k->column_index_offset); C;
    OPT_W("columnIndexLength", k->has_column_index_length, k->column_index_length);
    putchar('}');
}
static void dump_rg(const parquet_row_group_t* g) {
    putchar('{');
    K("columns"); putchar('[');
    if (g->columns) for (int32_t i = 0; i < g->num_columns; i++) { if (i) C; dump_cc(&g->columns[i]); }
    putchar(']'); C;
    W("totalByteSize", g->total_byte_size); C;
    W("numRows", g->num_rows); C;
    OPT_W("fileOffset", g->has_file_offset, g->file_offset); C;
    OPT_W("totalCompressed", g->has_total_compressed_size, g->total_compressed_size); C;
    OPT_W("ordinal", g->has_ordinal, g->ordinal);
    putchar('}');
}
static void dump_fm(const parquet_file_metadata_t* m) {
    putchar('{');
    W("version", m->version); C;
    K("schema"); putchar('[');
    if (m->schema) for (int32_t i = 0; i < m->num_schema_elements; i++) { if (i) C; dump_se(&m->schema[i]); }
    putchar(']'); C;
    W("numRows", m->num_rows); C;
    K("rowGroups"); putchar('[');
    if (m->row_groups) for (int32_t i = 0; i < m->num_row_groups; i++) { if (i) C; dump_rg(&m->row_groups[i]); }
    putchar(']'); C;
    K("kv"); dump_kvs(m->key_value_metadata, m->num_key_value); C;
    OPT_S("createdBy", m->created_by);
    putchar('}');
}
static void dump_ph(const parquet_page_header_t* h) {
    g_union_stats = 1;
    putchar('{');
    W("type", (int32_t)h->type); C;
    W("uncompressed", h->uncompressed_page_size); C;
    W("compressed", h->compressed_page_size); C;
    OPT_W("crc", h->has_crc, h->crc); C;
    K("data");
    if (h->type == CARQUET_PAGE_DATA) {
        const parquet_data_page_header_t* d = &h->data_page_header;
        fputs("[{", stdout);
        W("numValues", d->num_values); C; W("encoding", (int32_t)d->encoding); C;
        W("defEnc", (int32_t)d->definition_level_encoding); C; W("repEnc", (int32_t)d->repetition_level_encoding); C;
        K("stats"); if (d->has_statistics) { putchar('['); dump_stats(&d->statistics); putchar(']'); } else fputs("[]", stdout);
        fputs("}]", stdout);
    } else fputs("[]", stdout);
    C; K("dict");
    if (h->type == CARQUET_PAGE_DICTIONARY) {
        const parquet_dictionary_page_header_t* d = &h->dictionary_page_header;
        fputs("[{", stdout);
        W("numValues", d->num_values); C; W("encoding", (int32_t)d->encoding); C; K("isSorted"); jbool(d->is_sorted);
        fputs("}]", stdout);
    } else fputs("[]", stdout);
    C; K("v2");
    if (h->type == CARQUET_PAGE_DATA_V2) {
        const parquet_data_page_header_v2_t* d = &h->data_page_header_v2;
        fputs("[{", stdout);
        W("numValues", d->num_values); C; W("numNulls", d->num_nulls); C; W("numRows", d->num_rows); C;
        W("encoding", (int32_t)d->encoding); C; W("defLen", d->definition_levels_byte_length); C;
        W("repLen", d->repetition_levels_byte_length); C; K("isCompressed"); jbool(d->is_compressed); C;
        K("stats"); if (d->has_statistics) { putchar('['); dump_stats(&d->statistics); putchar(']'); } else fputs("[]", stdout);
        fputs("}]", stdout);
    } else fputs("[]", stdout);
    putchar('}');
    g_union_stats = 0;
}

/* ------------------------------------------------------------------ parse + dump */
static uint8_t* exact_copy(const uint8_t* p, size_t n) { uint8_t* b = malloc(n ? n : 1); if (n) memcpy(b, p, n); return b; }

static int g_last_st; static long g_last_used;
/* prints " <status> <consumed> <json>" */
static void parse_fm(const uint8_t* bytes, size_t n) {
    carquet_arena_t arena; carquet_error_t err; memset(&err, 0, sizeof(err));
    parquet_file_metadata_t md;
    uint8_t* in = exact_copy(bytes, n);
    if (carquet_arena_init(&arena) != CARQUET_OK) { printf(" -1 0 {}"); free(in); return; }
    carquet_status_t st = parquet_parse_file_metadata(in, n, &arena, &md, &err);
    long consumed = 0;
    if (st == CARQUET_OK) {
        consumed = (long)n;
        if (n > 0 && !g_fuzz) {
            carquet_arena_t a2; parquet_file_metadata_t md2; carquet_error_t e2; memset(&e2, 0, sizeof(e2));
            uint8_t* in2 = exact_copy(bytes, n - 1);
            if (carquet_arena_init(&a2) == CARQUET_OK) {
                if (parquet_parse_file_metadata(in2, n - 1, &a2, &md2, &e2) == CARQUET_OK) consumed = -1;
                carquet_arena_destroy(&a2);
            }
            free(in2);
        }
    }
    g_last_st = (int)st; g_last_used = -1;
    printf(" %d %ld ", (int)st, consumed);
    if (st == CARQUET_OK) dump_fm(&md); else fputs("{}", stdout);
    carquet_arena_destroy(&arena);
    free(in);
}
static void parse_ph(const uint8_t* bytes, size_t n, const uint8_t* trail, size_t nt) {
    carquet_error_t err; memset(&err, 0, sizeof(err));
    parquet_page_header_t h;
    uint8_t* in = malloc(n + nt ? n + nt : 1);
    if (n) memcpy(in, bytes, n);
    if (nt) memcpy(in + n, trail, nt);
    size_t used = 0;
    carquet_status_t st = parquet_parse_page_header(in, n + nt, &h, &used, &err);
    g_last_st = (int)st; g_last_used = (long)used;
    printf(" %d %zu ", (int)st, used);
    if (st == CARQUET_OK) dump_ph(&h); else fputs("{}", stdout);
    free(in);
}

/* ------------------------------------------------------------------ generic tree: writer script */
static void do_gw(vh_case_t* c) {
    carquet_buffer_t buf; carquet_buffer_init(&buf);
    thrift_encoder_t enc; thrift_encoder_init(&enc, &buf);
    for (int i = 2; i < c->n; i++) {
        const char* t = c->tok[i];
        switch (t[0]) {
            case 'S': thrift_write_struct_begin(&enc); break;
            case 'E': thrift_write_struct_end(&enc); break;
            case 'F': { int ty = atoi(c->tok[i+1]); int id = atoi(c->tok[i+2]); i += 2; thrift_write_field_header(&enc, ty, (int16_t)id); break; }
            case 'y': thrift_write_byte(&enc, (int8_t)(uint8_t)atoi(c->tok[++i])); break;
            case 'h': thrift_write_i16(&enc, (int16_t)vh_ll(c->tok[++i])); break;
            case 'i': thrift_write_i32(&enc, (int32_t)vh_ll(c->tok[++i])); break;
            case 'l': thrift_write_i64(&enc, (int64_t)vh_ll(c->tok[++i])); break;
            case 'o': thrift_write_bool(&enc, c->tok[++i][0] == '1'); break;
            case 'd': { size_t n; uint8_t* b = vh_unhex(c->tok[++i], &n); double d; memcpy(&d, b, 8); thrift_write_double(&enc, d); free(b); break; }
            case 'b': { size_t n; uint8_t* b = vh_unhex(c->tok[++i], &n); thrift_write_binary(&enc, b, (int32_t)n); free(b); break; }
            case 'u': { size_t n; uint8_t* b = vh_unhex(c->tok[++i], &n); thrift_write_uuid(&enc, b); free(b); break; }
            case 'L': { int et = atoi(c->tok[i+1]); int n = atoi(c->tok[i+2]); i += 2; thrift_write_list_begin(&enc, et, n); break; }
            case 'T': { int et = atoi(c->tok[i+1]); int n = atoi(c->tok[i+2]); i += 2; thrift_write_set_begin(&enc, et, n); break; }
            case 'M': { int kt = atoi(c->tok[i+1]); int vt = atoi(c->tok[i+2]); int n = atoi(c->tok[i+3]); i += 3; thrift_write_map_begin(&enc, kt, vt, n); break; }
            default: break;
        }
    }
    printf("%s %d ", c->tok[0], (int)enc.status);
    vh_puthex(carquet_buffer_data(&buf), carquet_buffer_size(&buf));
    carquet_buffer_destroy(&buf);
}

/* ------------------------------------------------------------------ generic tree: reader walk */
static const char* TN[] = { "stop", "bool", "bool", "byte", "i16", "i32", "i64", "double", "binary", "list", "set", "map", "struct", "uuid" };
static const char* tname(int t) { return (t >= 0 && t <= 13) ? TN[t] : "invalid"; }
static void g_value(thrift_decoder_t* d, thrift_type_t t, int depth, int in_container);
static void g_struct(thrift_decoder_t* d, int depth) {
    thrift_read_struct_begin(d);
    fputs("{\"t\":\"struct\",\"v\":[", stdout);
    thrift_type_t ft; int16_t fid; int first = 1;
    while (d->status == CARQUET_OK && thrift_read_field_begin(d, &ft, &fid)) {
        if (d->status != CARQUET_OK) break;
        printf("%s{\"id\":%d,\"val\":", first ? "" : ",", (int)fid); first = 0;
        g_value(d, ft, depth + 1, 0);
        putchar('}');
    }
    thrift_read_struct_end(d);
    fputs("]}", stdout);
}
static void g_value(thrift_decoder_t* d, thrift_type_t t, int depth, int in_container) {
    (void)in_container;
    if (depth > 100 || d->status != CARQUET_OK) { fputs("{\"t\":\"error\"}", stdout); return; }
    switch (t) {
        case THRIFT_TYPE_TRUE: case THRIFT_TYPE_FALSE:
            fputs("{\"t\":\"bool\",\"v\":", stdout); jbool(thrift_read_bool(d)); putchar('}'); break;
        case THRIFT_TYPE_BYTE: printf("{\"t\":\"byte\",\"v\":%u}", (unsigned)(uint8_t)thrift_read_byte(d)); break;
        case THRIFT_TYPE_I16: fputs("{\"t\":\"i16\",\"v\":", stdout); jw(thrift_read_i16(d)); putchar('}'); break;
        case THRIFT_TYPE_I32: fputs("{\"t\":\"i32\",\"v\":", stdout); jw(thrift_read_i32(d)); putchar('}'); break;
        case THRIFT_TYPE_I64: fputs("{\"t\":\"i64\",\"v\":", stdout); jw(thrift_read_i64(d)); putchar('}'); break;
        case THRIFT_TYPE_DOUBLE: { double x = thrift_read_double(d); uint8_t b[8]; memcpy(b, &x, 8);
            fputs("{\"t\":\"double\",\"v\":", stdout); jbytes(b, 8); putchar('}'); break; }
        case THRIFT_TYPE_BINARY: { int32_t n = 0; const uint8_t* p = thrift_read_binary(d, &n);
            fputs("{\"t\":\"binary\",\"v\":", stdout); jbin(p, n); putchar('}'); break; }
        case THRIFT_TYPE_UUID: { uint8_t u[16]; thrift_read_uuid(d, u);
            fputs("{\"t\":\"uuid\",\"v\":", stdout); jbytes(u, 16); putchar('}'); break; }
        case THRIFT_TYPE_LIST: case THRIFT_TYPE_SET: {
            thrift_type_t et; int32_t n;
            if (t == THRIFT_TYPE_LIST) thrift_read_list_begin(d, &et, &n); else thrift_read_set_begin(d, &et, &n);
            printf("{\"t\":\"%s\",\"et\":\"%s\",\"v\":[", t == THRIFT_TYPE_LIST ? "list" : "set", tname((int)et));
            for (int32_t i = 0; i < n && d->status == CARQUET_OK; i++) { if (i) C; g_value(d, et, depth + 1, 1); }
            fputs("]}", stdout); break; }
        case THRIFT_TYPE_MAP: {
            thrift_type_t kt, vt; int32_t n;
            thrift_read_map_begin(d, &kt, &vt, &n);
            if (n == 0) { fputs("{\"t\":\"map\",\"kt\":\"byte\",\"vt\":\"byte\",\"v\":[]}", stdout); break; }
            printf("{\"t\":\"map\",\"kt\":\"%s\",\"vt\":\"%s\",\"v\":[", tname((int)kt), tname((int)vt));
            for (int32_t i = 0; i < n && d->status == CARQUET_OK; i++) {
                if (i) C; putchar('['); g_value(d, kt, depth + 1, 1); C; g_value(d, vt, depth + 1, 1); putchar(']');
            }
            fputs("]}", stdout); break; }
        case THRIFT_TYPE_STRUCT: g_struct(d, depth); break;
        default: fputs("{\"t\":\"invalid\"}", stdout); d->status = CARQUET_ERROR_THRIFT_INVALID_TYPE; break;
    }
}
static void do_gr(vh_case_t* c) {
    size_t n; uint8_t* in = vh_unhex(c->tok[2], &n);
    thrift_decoder_t dec; thrift_decoder_init(&dec, in, n);
    /* the tree is printed while reading; status and consumed follow it, the driver reorders */
    printf("%s ", c->tok[0]);
    g_struct(&dec, 0);
    printf(" %d %zu", (int)dec.status, dec.reader.pos);
    free(in);
}

static uint8_t* build_deep(vh_case_t* c, int at, size_t* out_n) {
    size_t np, nr, nm, nr2, nt;
    uint8_t* pre = vh_unhex(c->tok[at], &np); uint8_t* rep = vh_unhex(c->tok[at+1], &nr);
    size_t n1 = (size_t)vh_ull(c->tok[at+2]);
    uint8_t* mid = vh_unhex(c->tok[at+3], &nm); uint8_t* rep2 = vh_unhex(c->tok[at+4], &nr2);
    size_t n2 = (size_t)vh_ull(c->tok[at+5]);
    uint8_t* tail = vh_unhex(c->tok[at+6], &nt);
    size_t total = np + nr * n1 + nm + nr2 * n2 + nt;
    uint8_t* b = malloc(total ? total : 1); size_t o = 0;
    memcpy(b + o, pre, np); o += np;
    for (size_t i = 0; i < n1; i++) { memcpy(b + o, rep, nr); o += nr; }
    memcpy(b + o, mid, nm); o += nm;
    for (size_t i = 0; i < n2; i++) { memcpy(b + o, rep2, nr2); o += nr2; }
    memcpy(b + o, tail, nt); o += nt;
    free(pre); free(rep); free(mid); free(rep2); free(tail);
    *out_n = total;
    return b;
}

/* ------------------------------------------------------------------ C08: arbitrary bytes */
static FILE* g_null;
/* silent walk over a struct with the thrift_read_* primitives; below depth 64 the rest is skipped */
static void q_value(thrift_decoder_t* d, thrift_type_t t, int depth);
static void q_struct(thrift_decoder_t* d, int depth) {
    thrift_read_struct_begin(d);
    thrift_type_t ft; int16_t fid;
    while (d->status == CARQUET_OK && thrift_read_field_begin(d, &ft, &fid)) {
        if (d->status != CARQUET_OK) break;
        q_value(d, ft, depth + 1);
    }
    thrift_read_struct_end(d);
}
static void q_value(thrift_decoder_t* d, thrift_type_t t, int depth) {
    if (d->status != CARQUET_OK) return;
    if (depth > 64) { thrift_skip(d, t); return; }
    switch (t) {
        case THRIFT_TYPE_TRUE: case THRIFT_TYPE_FALSE: (void)thrift_read_bool(d); break;
        case THRIFT_TYPE_BYTE: (void)thrift_read_byte(d); break;
        case THRIFT_TYPE_I16: (void)thrift_read_i16(d); break;
        case THRIFT_TYPE_I32: (void)thrift_read_i32(d); break;
        case THRIFT_TYPE_I64: (void)thrift_read_i64(d); break;
        case THRIFT_TYPE_DOUBLE: (void)thrift_read_double(d); break;
        case THRIFT_TYPE_BINARY: { int32_t n = 0; const uint8_t* p = thrift_read_binary(d, &n);
            volatile uint8_t sink = 0; if (p) for (int32_t i = 0; i < n; i++) sink ^= p[i]; (void)sink; break; }
        case THRIFT_TYPE_UUID: { uint8_t u[16]; thrift_read_uuid(d, u); break; }
        case THRIFT_TYPE_LIST: case THRIFT_TYPE_SET: {
            thrift_type_t et; int32_t n;
            if (t == THRIFT_TYPE_LIST) thrift_read_list_begin(d, &et, &n); else thrift_read_set_begin(d, &et, &n);
            for (int32_t i = 0; i < n && d->status == CARQUET_OK; i++) q_value(d, et, depth + 1);
            break; }
        case THRIFT_TYPE_MAP: {
            thrift_type_t kt, vt; int32_t n;
            thrift_read_map_begin(d, &kt, &vt, &n);
            for (int32_t i = 0; i < n && d->status == CARQUET_OK; i++) { q_value(d, kt, depth + 1); q_value(d, vt, depth + 1); }
            break; }
        case THRIFT_TYPE_STRUCT: q_struct(d, depth); break;
        default: thrift_skip(d, t); break;     /* STOP / invalid type ids: let the library decide */
    }
}
/* one call of an entry point on an exact-size heap copy; *used = -1 when the entry has no such output */
static void run_entry(const char* entry, const uint8_t* p, size_t n, int* st, long* used) {
    if (entry[0] == 'f' || entry[0] == 'p') {
        FILE* save = stdout; stdout = g_null;           /* the dump still reads every parsed field */
        if (entry[0] == 'f') parse_fm(p, n); else parse_ph(p, n, NULL, 0);
        stdout = save;
        *st = g_last_st; *used = g_last_used;
        return;
    }
    uint8_t* in = exact_copy(p, n);
    thrift_decoder_t dec; thrift_decoder_init(&dec, in, n);
    if (entry[0] == 'g') q_struct(&dec, 0); else thrift_skip(&dec, THRIFT_TYPE_STRUCT);
    *st = (int)dec.status; *used = (long)dec.reader.pos;
    free(in);
}
static const uint8_t FIXED_SUBS[] = { 0x00, 0x01, 0x0f, 0x10, 0x15, 0x19, 0x1c, 0x7f, 0x80, 0xf0, 0xff };
static const uint8_t INFL0[] = { 0x7f }, INFL1[] = { 0xff, 0xff, 0xff, 0x07 }, INFL2[] = { 0xff, 0xff, 0xff, 0x0f },
    INFL3[] = { 0xff, 0xff, 0xff, 0xff, 0xff, 0xff, 0xff, 0xff, 0x01 }, INFL4[] = { 0xff, 0xff, 0xff, 0xff, 0xff, 0xff, 0xff, 0xff, 0xff, 0xff };
static const uint8_t* INFL[] = { INFL0, INFL1, INFL2, INFL3, INFL4 };
static const size_t INFL_N[] = { 1, 4, 4, 9, 10 };
typedef struct { const char* entry; long calls, ok, err, maxex; int have; int verbose; } fz_t;
static void fz_call(fz_t* f, const uint8_t* p, size_t n, char cls, size_t pos, unsigned arg) {
    if (f->verbose) { printf("M %c %zu %u\n", cls, pos, arg); fflush(stdout); }
    int st; long used;
    run_entry(f->entry, p, n, &st, &used);
    f->calls++;
    if (st == 0) { f->ok++; if (used >= 0) { long ex = used - (long)n; if (!f->have || ex > f->maxex) f->maxex = ex; f->have = 1; } }
    else f->err++;
}
static void do_fz(vh_case_t* c) {
    size_t n; uint8_t* base = vh_unhex(c->tok[3], &n);
    const char* classes = c->tok[4];
    fz_t f = { c->tok[2], 0, 0, 0, 0, 0, getenv("FZ_VERBOSE") != NULL };
    uint8_t* m = malloc(n + 16);
    if (strchr(classes, 'T')) for (size_t k = 0; k < n; k++) fz_call(&f, base, k, 'T', k, 0);
    if (strchr(classes, 'S')) for (size_t i = 0; i < n; i++) {
        uint8_t b = base[i]; uint8_t seen[256]; memset(seen, 0, sizeof(seen)); seen[b] = 1;
        uint8_t cand[11 + 16 + 4]; int nc = 0;
        for (int k = 0; k < 11; k++) cand[nc++] = FIXED_SUBS[k];
        for (int t = 0; t < 16; t++) cand[nc++] = (uint8_t)((b & 0xf0) | t);
        cand[nc++] = (uint8_t)(b & 0x0f); cand[nc++] = (uint8_t)((b & 0x0f) | 0x10);
        cand[nc++] = (uint8_t)((b & 0x0f) | 0xe0); cand[nc++] = (uint8_t)((b & 0x0f) | 0xf0);
        memcpy(m, base, n);
        for (int k = 0; k < nc; k++) { if (seen[cand[k]]) continue; seen[cand[k]] = 1; m[i] = cand[k]; fz_call(&f, m, n, 'S', i, cand[k]); }
    }
    if (strchr(classes, 'I')) for (size_t i = 0; i < n; i++) for (int e = 0; e < 5; e++) {
        memcpy(m, base, i); m[i] = (uint8_t)(base[i] | 0x80); memcpy(m + i + 1, INFL[e], INFL_N[e]);
        memcpy(m + i + 1 + INFL_N[e], base + i + 1, n - i - 1);
        fz_call(&f, m, n + INFL_N[e], 'I', i, (unsigned)e);
    }
    if (strchr(classes, 'A')) for (int k = 0; k < 11; k++) { memcpy(m, base, n); m[n] = FIXED_SUBS[k]; fz_call(&f, m, n + 1, 'A', n, FIXED_SUBS[k]); }
    printf("%s %ld %ld %ld ", c->tok[0], f.calls, f.ok, f.err);
    if (f.have) printf("%ld", f.maxex); else fputs("na", stdout);
    free(m); free(base);
}

int main(void) {
    g_null = fopen("/dev/null", "w");
    vh_case_t c = {0};
    while (vh_next(&c)) {
        if (c.n < 2) continue;
        vh_begin(&c);
        const char* op = c.tok[1];
        if (!strcmp(op, "fmw") || !strcmp(op, "phw")) {
            int is_fm = op[0] == 'f';
            cur_t cur = { c.tok, c.n, is_fm ? 3 : 4, 0, strchr(c.tok[2], 'N') != NULL };
            carquet_buffer_t buf; carquet_buffer_init(&buf);
            carquet_error_t err; memset(&err, 0, sizeof(err));
            carquet_status_t st;
            parquet_file_metadata_t md; parquet_page_header_t ph;
            if (is_fm) { fill_fm(&cur, &md); st = parquet_write_file_metadata(&md, &buf, &err); }
            else { fill_ph(&cur, &ph); st = parquet_write_page_header(&ph, &buf, &err); }
            if (cur.bad || cur.i != cur.n) { printf("%s ERR bad-tokens %d/%d", c.tok[0], cur.i, cur.n); }
            else {
                size_t n = carquet_buffer_size(&buf);
                printf("%s %d ", c.tok[0], (int)st);
                vh_puthex(carquet_buffer_data(&buf), n);
                if (is_fm) parse_fm(carquet_buffer_data(&buf), n);
                else { size_t nt; uint8_t* tr = vh_unhex(c.tok[3], &nt); parse_ph(carquet_buffer_data(&buf), n, tr, nt); free(tr); }
            }
            carquet_buffer_destroy(&buf);
            tfree_all();
        } else if (!strcmp(op, "fmp")) {
            size_t n; uint8_t* b = vh_unhex(c.tok[2], &n);
            printf("%s", c.tok[0]); parse_fm(b, n); free(b);
        } else if (!strcmp(op, "php")) {
            size_t n, nt; uint8_t* b = vh_unhex(c.tok[2], &n); uint8_t* tr = vh_unhex(c.tok[3], &nt);
            printf("%s", c.tok[0]); parse_ph(b, n, tr, nt); free(b); free(tr);
        } else if (!strcmp(op, "phd")) {
            size_t n, nt; uint8_t* b = build_deep(&c, 2, &n); uint8_t* tr = vh_unhex(c.tok[9], &nt);
            printf("%s", c.tok[0]); parse_ph(b, n, tr, nt); free(b); free(tr);
        } else if (!strcmp(op, "raw") || !strcmp(op, "bomb")) {
            size_t n; uint8_t* b; g_fuzz = 1;
            if (op[0] == 'r') b = vh_unhex(c.tok[3], &n);
            else {
                size_t np, nr, nq; uint8_t* pre = vh_unhex(c.tok[3], &np); uint8_t* rep = vh_unhex(c.tok[4], &nr);
                size_t k = (size_t)vh_ull(c.tok[5]); uint8_t* post = vh_unhex(c.tok[6], &nq);
                n = np + nr * k + nq; b = malloc(n ? n : 1);
                memcpy(b, pre, np); for (size_t i = 0; i < k; i++) memcpy(b + np + i * nr, rep, nr); memcpy(b + np + nr * k, post, nq);
                free(pre); free(rep); free(post);
            }
            int st; long used; run_entry(c.tok[2], b, n, &st, &used);
            printf("%s %d %ld %zu", c.tok[0], st, used, n);
            free(b); g_fuzz = 0;
        } else if (!strcmp(op, "fz")) { g_fuzz = 1; do_fz(&c); g_fuzz = 0; }
        else if (!strcmp(op, "gw")) do_gw(&c);
        else if (!strcmp(op, "gr")) do_gr(&c);
        else printf("%s ERR unknown-op", c.tok[0]);
        vh_end();
    }
    vh_finish(&c);
    free(g_ptrs);
    if (g_null) fclose(g_null);
    return 0;
}
