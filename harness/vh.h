/* vh.h - common plumbing for /verif C harnesses.
 *
 * Protocol: one case per stdin line, tokens separated by single spaces, first token = case id.
 * The harness prints "BEGIN <id>\n" (flushed) before running the case and "<id> <result tokens>\n"
 * after it, so the Python supervisor can attribute a crash/hang to the case in flight.
 * Byte strings are lowercase hex, "-" for the empty string. Harnesses stay dumb: they copy
 * bytes in and out of the library and never judge a result.
 */
#ifndef VH_H
#define VH_H
#define _GNU_SOURCE
#include <stdint.h>
#include <stdio.h>
#include <stdlib.h>
#include <string.h>
#include <stdbool.h>
#include <unistd.h>
#include <signal.h>
#include <sys/prctl.h>
#include <sys/mman.h>

#ifdef __SANITIZE_ADDRESS__
int __lsan_do_recoverable_leak_check(void);
#define VH_LEAKCHECK() __lsan_do_recoverable_leak_check()
#else
#define VH_LEAKCHECK() 0
#endif

typedef struct { char** tok; int n; int cap; char* line; size_t linecap; } vh_case_t;

static int vh_hexval(int c) {
    if (c >= '0' && c <= '9') return c - '0';
    if (c >= 'a' && c <= 'f') return c - 'a' + 10;
    if (c >= 'A' && c <= 'F') return c - 'A' + 10;
    return -1;
}

/* Decode hex token into an exact-size malloc'd buffer (so ASan sees the true bounds).
 * Zero-length input still returns a valid 1-byte allocation with *len = 0. */
static uint8_t* vh_unhex(const char* s, size_t* len) {
    if (s[0] == '-' && s[1] == 0) { *len = 0; return (uint8_t*)malloc(1); }
    size_t n = strlen(s) / 2;
    uint8_t* b = (uint8_t*)malloc(n ? n : 1);
    for (size_t i = 0; i < n; i++) b[i] = (uint8_t)((vh_hexval(s[2*i]) << 4) | vh_hexval(s[2*i+1]));
    *len = n;
    return b;
}

static void vh_puthex(const void* p, size_t n) {
    static const char* d = "0123456789abcdef";
    const uint8_t* b = (const uint8_t*)p;
    if (n == 0) { fputc('-', stdout); return; }
    for (size_t i = 0; i < n; i++) { fputc(d[b[i] >> 4], stdout); fputc(d[b[i] & 15], stdout); }
}

static int vh_next(vh_case_t* c) {
    /* a harness must not outlive its supervisor (a killed check would leave hanging cases spinning) */
    static int tied = 0;
    if (!tied) { tied = 1; prctl(PR_SET_PDEATHSIG, SIGKILL); }
    ssize_t r = getline(&c->line, &c->linecap, stdin);
    if (r <= 0) return 0;
    while (r > 0 && (c->line[r-1] == '\n' || c->line[r-1] == '\r')) c->line[--r] = 0;
    c->n = 0;
    char* p = c->line;
    while (*p) {
        if (c->n == c->cap) { c->cap = c->cap ? c->cap * 2 : 64; c->tok = (char**)realloc(c->tok, sizeof(char*) * c->cap); }
        c->tok[c->n++] = p;
        char* q = strchr(p, ' ');
        if (!q) break;
        *q = 0; p = q + 1;
    }
    return 1;
}

/* per-case watchdog: VH_CASE_TIMEOUT seconds of wall time per case (0 / unset = none); the process then dies by
 * SIGALRM inside the case, which the supervisor reports as a hang of that case without waiting for a whole-chunk budget */
static void vh_begin(const vh_case_t* c) {
    static int tmo = -1;
    if (tmo < 0) { const char* e = getenv("VH_CASE_TIMEOUT"); tmo = e ? atoi(e) : 0; if (tmo < 0) tmo = 0; }
    printf("BEGIN %s\n", c->tok[0]); fflush(stdout);
    if (tmo) alarm((unsigned)tmo);
}
/* Leak check every VH_LEAK_EVERY cases (default 64; the supervisor re-runs a window with 1 to
 * attribute a leak to a case). Prints " LEAK" as the last token of the case where it fired. */
static void vh_end(void) {
    static int every = 0, tick = 0;
    alarm(0);
    if (!every) { const char* e = getenv("VH_LEAK_EVERY"); every = e ? atoi(e) : 64; if (every < 1) every = 1; }
    if (++tick >= every) { tick = 0; if (VH_LEAKCHECK()) fputs(" LEAK", stdout); }
    fputc('\n', stdout); fflush(stdout);
}
static void vh_finish(vh_case_t* c) { free(c->tok); free(c->line); c->tok = NULL; c->line = NULL; }

static long long vh_ll(const char* s) { return strtoll(s, NULL, 10); }
static unsigned long long vh_ull(const char* s) { return strtoull(s, NULL, 10); }

/* Guarded buffers: `n` usable bytes placed so that the byte after them (or before them) is an
 * inaccessible page. Used for SIMD kernels where ASan cannot see inside vector loads of
 * stack/global memory and to catch over-reads of exact-size inputs. */
typedef struct { uint8_t* base; size_t maplen; uint8_t* p; } vh_guard_t;
static uint8_t* vh_guard_alloc(vh_guard_t* g, size_t n, int at_end) {
    size_t pg = 4096;
    size_t body = ((n + pg - 1) / pg + 1) * pg;
    g->maplen = body + 2 * pg;
    g->base = (uint8_t*)mmap(NULL, g->maplen, PROT_READ | PROT_WRITE, MAP_PRIVATE | MAP_ANONYMOUS, -1, 0);
    if (g->base == MAP_FAILED) { perror("mmap"); exit(3); }
    mprotect(g->base, pg, PROT_NONE);
    mprotect(g->base + pg + body, pg, PROT_NONE);
    g->p = at_end ? g->base + pg + body - n : g->base + pg;
    return g->p;
}
static void vh_guard_free(vh_guard_t* g) { munmap(g->base, g->maplen); }

#endif
