/* h_par.c - replayer / recorder for C07 (parallel reading).
 *
 * Line protocol (vh.h), one case per line, the harness never judges:
 *
 *   <id> dry <path> <mode> <batch_size> <verify> <proj|->
 *        batch reader with num_threads = 1; hook H2 (carquet_verif_sched) RECORDS every hook
 *        point it passes together with the stream position of the shared FILE*.
 *        Output:  M=<rows>:<rg rows,..>  then per carquet_batch_reader_next call
 *                 H=<col>.<point>.<ftell>,...   N=<status>[:<rows>:<ncols>:<nv>,<bitmap>,<hex> ...]
 *   <id> run <path> <mode> <batch_size> <verify> <threads> <proj|-> <sched|-> [<timeout_us>]
 *        batch reader with num_threads = <threads>. <sched> is the TLC-produced total order of the
 *        gated I/O steps of the whole run: a comma separated list of column indices; the k-th
 *        occurrence of column c is the k-th gated hook arrival of the task of column c. Every
 *        hook arrival first completes the step the task holds (cursor++), then - at the gated
 *        points "before seek" and "between seek and read" - waits for its turn OR a bounded time
 *        (default 20 ms); after the first time-out / unexpected arrival the run is marked
 *        not-realised and runs free (an infeasible schedule can therefore not deadlock).
 *        Output:  N=... per call (as above) and S=<realised>:<cursor>:<len>:<timeouts>:<extra>:<waitidx>:<cursor_at_timeout>
 *
 *   mode: f = fread, m = mmap, b = buffer.  "-" as <sched> = no forcing (hook not installed).
 *
 * Fresh-process mode (never forks, no OpenMP before the threads start, no carquet_init()):
 *   h_par indep <path> <prog_1> ... <prog_N>
 *        N pthreads released from one barrier, every thread has its own reader handle and runs
 *        its program; prints "T <i> <prog> <result>" per thread. Programs (first API call is the
 *        first letter):  I  carquet_get_cpu_info      K  carquet_crc32 on a fixed buffer
 *                        D  carquet_dispatch_* kernels on fixed inputs (dispatch table)
 *                        O<m>C / O<m>B<t>  open (mode m) then column API / batch reader (t threads)
 *                        V<m>C / V<m>B<t>  same with verify_checksums = 1 (carquet_crc32 per page)
 */
#include "vh.h"
#include <carquet/carquet.h>
#include "reader/reader_internal.h"
#include <pthread.h>
#include <sched.h>
#include <time.h>
#include <errno.h>

/* hook H2; weak so that the harness still links (and runs unforced) against a tree without the hook */
extern void (*carquet_verif_sched)(int column_index, int point) __attribute__((weak));
#define HAVE_H2 (&carquet_verif_sched != NULL)
extern uint32_t carquet_crc32(const uint8_t* data, size_t length);
extern void carquet_dispatch_gather_i32(const int32_t* dict, const uint32_t* indices, int64_t count, int32_t* output);
extern void carquet_dispatch_prefix_sum_i32(int32_t* values, int64_t count, int32_t initial);
extern void carquet_dispatch_byte_split_decode_float(const uint8_t* data, int64_t count, float* values);
extern void carquet_dispatch_unpack_bools(const uint8_t* input, uint8_t* output, int64_t count);
extern int64_t carquet_dispatch_count_non_nulls(const int16_t* def_levels, int64_t count, int16_t max_def_level);

#define MAXCOLS 64

/* ------------------------------------------------------------------ growable output string */
typedef struct { char* s; size_t n, cap; } sb_t;
static void sb_need(sb_t* b, size_t k) { if (b->n + k + 1 > b->cap) { while (b->n + k + 1 > b->cap) b->cap = b->cap ? b->cap * 2 : 4096; b->s = (char*)realloc(b->s, b->cap); } }
static void sb_putc(sb_t* b, char c) { sb_need(b, 1); b->s[b->n++] = c; b->s[b->n] = 0; }
static void sb_puts(sb_t* b, const char* s) { size_t k = strlen(s); sb_need(b, k); memcpy(b->s + b->n, s, k); b->n += k; b->s[b->n] = 0; }
static void sb_printf(sb_t* b, const char* fmt, long long a) { char t[64]; snprintf(t, sizeof t, fmt, a); sb_puts(b, t); }
static void sb_hex(sb_t* b, const void* p, size_t n) {
    static const char* d = "0123456789abcdef"; const uint8_t* x = (const uint8_t*)p;
    if (n == 0) { sb_putc(b, '-'); return; }
    sb_need(b, 2 * n);
    for (size_t i = 0; i < n; i++) { b->s[b->n++] = d[x[i] >> 4]; b->s[b->n++] = d[x[i] & 15]; }
    b->s[b->n] = 0;
}

static size_t value_size(int type, int tlen) {
    switch (type) {
        case CARQUET_PHYSICAL_BOOLEAN: return 1;
        case CARQUET_PHYSICAL_INT32: case CARQUET_PHYSICAL_FLOAT: return 4;
        case CARQUET_PHYSICAL_INT64: case CARQUET_PHYSICAL_DOUBLE: return 8;
        case CARQUET_PHYSICAL_INT96: return 12;
        case CARQUET_PHYSICAL_FIXED_LEN_BYTE_ARRAY: return tlen > 0 ? (size_t)tlen : 0;
        case CARQUET_PHYSICAL_BYTE_ARRAY: return sizeof(carquet_byte_array_t);
        default: return 0;
    }
}
static int ba_sane(const carquet_byte_array_t* a, int64_t nn) {
    for (int64_t i = 0; i < nn; i++) if (a[i].length < 0 || a[i].length > (1 << 26) || (a[i].length > 0 && !a[i].data)) return 0;
    return 1;
}
static void dump_values(sb_t* b, const void* vals, int type, int tlen, int64_t nn) {
    if (type == CARQUET_PHYSICAL_BYTE_ARRAY) {
        const carquet_byte_array_t* a = (const carquet_byte_array_t*)vals;
        if (!ba_sane(a, nn)) { sb_puts(b, "!badlen"); return; }
        if (nn == 0) { sb_putc(b, '-'); return; }
        for (int64_t i = 0; i < nn; i++) { uint32_t l = (uint32_t)a[i].length; sb_hex(b, &l, 4); if (l) sb_hex(b, a[i].data, l); }
    } else sb_hex(b, vals, (size_t)nn * value_size(type, tlen));
}

/* one batch -> ":rows:ncols:nv,bitmap,hex:..." */
static void dump_batch(sb_t* o, carquet_reader_t* rd, carquet_row_batch_t* b, const int* proj, int nproj) {
    int32_t nc = carquet_row_batch_num_columns(b);
    sb_printf(o, ":%lld", (long long)carquet_row_batch_num_rows(b)); sb_printf(o, ":%lld", nc);
    const carquet_schema_t* s = carquet_reader_schema(rd);
    for (int32_t c = 0; c < nc; c++) {
        const void* data = NULL; const uint8_t* bm = NULL; int64_t nv = 0;
        carquet_status_t cs = carquet_row_batch_column(b, c, &data, &bm, &nv);
        if (cs != CARQUET_OK) { sb_printf(o, ":err%lld", (long long)cs); continue; }
        int fc = (c < nproj) ? proj[c] : c;
        const carquet_schema_node_t* nd = carquet_schema_get_element(s, s->leaf_indices[fc]);
        int type = (int)carquet_schema_node_physical_type(nd), tlen = carquet_schema_node_type_length(nd);
        sb_printf(o, ":%lld,", (long long)nv);
        int64_t nn = nv;
        if (bm) { nn = 0; for (int64_t i = 0; i < nv; i++) { int isnull = (bm[i / 8] >> (i % 8)) & 1; sb_putc(o, isnull ? '1' : '0'); if (!isnull) nn++; } if (nv == 0) sb_putc(o, '-'); }
        else sb_putc(o, 'x');
        sb_putc(o, ',');
        if (data || nn == 0) dump_values(o, data, type, tlen, nn); else sb_puts(o, "!nodata");
    }
}

/* ------------------------------------------------------------------ reader plumbing */
typedef struct { carquet_reader_t* rd; uint8_t* buf; } handle_t;

static int open_handle(handle_t* h, const char* path, char mode, int verify, int* code) {
    carquet_reader_options_t opt; carquet_reader_options_init(&opt);
    opt.verify_checksums = verify != 0;
    carquet_error_t err; memset(&err, 0, sizeof err);
    h->rd = NULL; h->buf = NULL;
    if (mode == 'm') opt.use_mmap = true;
    if (mode == 'b') {
        FILE* f = fopen(path, "rb"); if (!f) { *code = -1; return 0; }
        fseek(f, 0, SEEK_END); long n = ftell(f); fseek(f, 0, SEEK_SET);
        h->buf = (uint8_t*)malloc(n > 0 ? (size_t)n : 1);
        if (n > 0 && fread(h->buf, 1, (size_t)n, f) != (size_t)n) { fclose(f); *code = -2; return 0; }
        fclose(f);
        h->rd = carquet_reader_open_buffer(h->buf, (size_t)n, &opt, &err);
    } else h->rd = carquet_reader_open(path, &opt, &err);
    *code = (int)err.code;
    return h->rd != NULL;
}
static void close_handle(handle_t* h) { if (h->rd) carquet_reader_close(h->rd); free(h->buf); h->rd = NULL; h->buf = NULL; }

static int parse_proj(const char* pl, int* proj, carquet_reader_t* rd) {
    int n = 0;
    if (pl && !(pl[0] == '-' && pl[1] == 0)) { char* p = (char*)pl; while (*p && n < MAXCOLS) { proj[n++] = (int)strtol(p, &p, 10); if (*p == ',') p++; } }
    else { int32_t nc = carquet_reader_num_columns(rd); for (int i = 0; i < nc && i < MAXCOLS; i++) proj[n++] = i; }
    return n;
}

/* ------------------------------------------------------------------ hook H2: record / force */
static FILE* g_shared_file = NULL;
static sb_t g_hooklog;                      /* dry run: col.point.pos, ... */
static void hook_record(int col, int point) {
    long pos = g_shared_file ? ftell(g_shared_file) : -1;
    if (g_hooklog.n) sb_putc(&g_hooklog, ',');
    sb_printf(&g_hooklog, "%lld.", col); sb_printf(&g_hooklog, "%lld.", point); sb_printf(&g_hooklog, "%lld", pos);
}

static int* g_sched = NULL; static int g_slen = 0;
static int* g_occ[MAXCOLS]; static int g_nocc[MAXCOLS]; static int g_cnt[MAXCOLS]; static int g_hold[MAXCOLS];
static int g_cursor = 0, g_abandon = 0, g_timeouts = 0, g_extra = 0, g_waitidx = -1, g_cur_at_to = -1;
static long g_timeout_us = 20000;

static double now_us(void) { struct timespec ts; clock_gettime(CLOCK_MONOTONIC, &ts); return ts.tv_sec * 1e6 + ts.tv_nsec / 1e3; }

static void hook_force(int col, int point) {
    if (col < 0 || col >= MAXCOLS) return;
    int k = point & 7;
    if (g_hold[col] >= 0) {                   /* the step this task was executing is complete */
        int idx = g_hold[col]; g_hold[col] = -1;
        __atomic_store_n(&g_cursor, idx + 1, __ATOMIC_SEQ_CST);
    }
    if (!(k == 0 || k == 1 || k == 3 || k == 4)) return;      /* only the four I/O steps are gated */
    if (__atomic_load_n(&g_abandon, __ATOMIC_SEQ_CST)) return;
    int idx = (g_cnt[col] < g_nocc[col]) ? g_occ[col][g_cnt[col]] : -1;
    g_cnt[col]++;
    if (idx < 0) { __atomic_add_fetch(&g_extra, 1, __ATOMIC_SEQ_CST); __atomic_store_n(&g_abandon, 1, __ATOMIC_SEQ_CST); return; }
    double t0 = now_us(); int spins = 0;
    for (;;) {
        if (__atomic_load_n(&g_cursor, __ATOMIC_SEQ_CST) == idx) { g_hold[col] = idx; return; }
        if (__atomic_load_n(&g_abandon, __ATOMIC_SEQ_CST)) return;
        if (++spins > 200) {
            if (now_us() - t0 > (double)g_timeout_us) {
                if (__atomic_load_n(&g_cursor, __ATOMIC_SEQ_CST) == idx) { g_hold[col] = idx; return; }
                __atomic_add_fetch(&g_timeouts, 1, __ATOMIC_SEQ_CST);
                if (!__atomic_exchange_n(&g_abandon, 1, __ATOMIC_SEQ_CST)) { g_waitidx = idx; g_cur_at_to = __atomic_load_n(&g_cursor, __ATOMIC_SEQ_CST); }
                return;
            }
            sched_yield();
        }
    }
}

static void sched_install(const char* s) {
    g_slen = 0; free(g_sched); g_sched = NULL;
    for (int c = 0; c < MAXCOLS; c++) { free(g_occ[c]); g_occ[c] = NULL; g_nocc[c] = 0; g_cnt[c] = 0; g_hold[c] = -1; }
    g_cursor = 0; g_abandon = 0; g_timeouts = 0; g_extra = 0; g_waitidx = -1; g_cur_at_to = -1;
    size_t cap = strlen(s) / 2 + 2; g_sched = (int*)malloc(sizeof(int) * cap);
    char* p = (char*)s;
    while (*p) { int c = (int)strtol(p, &p, 10); if (c >= 0 && c < MAXCOLS) { g_sched[g_slen++] = c; g_nocc[c]++; } if (*p == ',') p++; else if (*p) break; }
    for (int c = 0; c < MAXCOLS; c++) if (g_nocc[c]) { g_occ[c] = (int*)malloc(sizeof(int) * (size_t)g_nocc[c]); g_nocc[c] = 0; }
    for (int i = 0; i < g_slen; i++) { int c = g_sched[i]; g_occ[c][g_nocc[c]++] = i; }
}

/* ------------------------------------------------------------------ dry / run */
static void do_batches(sb_t* o, handle_t* h, long long bs, int threads, const char* projs, int dry) {
    int proj[MAXCOLS]; int nproj = parse_proj(projs, proj, h->rd);
    static int32_t idx[MAXCOLS];
    carquet_batch_reader_config_t cfg; carquet_batch_reader_config_init(&cfg);
    cfg.batch_size = bs; cfg.num_threads = threads;
    if (projs && !(projs[0] == '-' && projs[1] == 0)) { for (int i = 0; i < nproj; i++) idx[i] = proj[i]; cfg.column_indices = idx; cfg.num_columns = nproj; }
    carquet_error_t err; memset(&err, 0, sizeof err);
    carquet_batch_reader_t* br = carquet_batch_reader_create(h->rd, &cfg, &err);
    if (!br) { sb_printf(o, " T=err:%lld", (long long)err.code); return; }
    for (int call = 0; call < 100000; call++) {
        carquet_row_batch_t* b = NULL;
        if (dry) { g_hooklog.n = 0; if (g_hooklog.s) g_hooklog.s[0] = 0; }
        carquet_status_t st = carquet_batch_reader_next(br, &b);
        if (dry) { sb_puts(o, " H="); sb_puts(o, g_hooklog.n ? g_hooklog.s : "-"); }
        sb_printf(o, " N=%lld", (long long)st);
        if (st != CARQUET_OK || !b) break;
        dump_batch(o, h->rd, b, proj, nproj);
        int64_t rows = carquet_row_batch_num_rows(b);
        carquet_row_batch_free(b);
        (void)rows;
    }
    carquet_batch_reader_free(br);
}

static void dump_meta(sb_t* o, carquet_reader_t* rd) {
    int32_t nrg = carquet_reader_num_row_groups(rd);
    sb_printf(o, " M=%lld:", (long long)carquet_reader_num_rows(rd));
    for (int i = 0; i < nrg && i < 4096; i++) {
        carquet_row_group_metadata_t md; memset(&md, 0, sizeof md);
        carquet_status_t st = carquet_reader_row_group_metadata(rd, i, &md);
        if (i) sb_putc(o, ','); sb_printf(o, "%lld", st == CARQUET_OK ? (long long)md.num_rows : -1LL);
    }
    if (nrg == 0) sb_putc(o, '-');
    sb_printf(o, ":%lld", (long long)carquet_reader_num_columns(rd));
}

static void case_dry_run(vh_case_t* c, int dry) {
    sb_t o = {0};
    int need = dry ? 7 : 9;
    if (c->n < need) { fputs(" ?=args", stdout); return; }
    const char* path = c->tok[2]; char mode = c->tok[3][0]; long long bs = atoll(c->tok[4]); int verify = atoi(c->tok[5]);
    int threads = dry ? 1 : atoi(c->tok[6]);
    const char* projs = dry ? c->tok[6] : c->tok[7];
    const char* sched = dry ? "-" : c->tok[8];
    g_timeout_us = (!dry && c->n > 9) ? atol(c->tok[9]) : 20000;
    handle_t h; int code = 0;
    if (!open_handle(&h, path, mode, verify, &code)) { printf(" O=err:%d", code); close_handle(&h); return; }
    sb_puts(&o, " O=ok");
    if (dry) dump_meta(&o, h.rd);
    int forced = !(sched[0] == '-' && sched[1] == 0);
    g_shared_file = h.rd->file;
    if (forced) sched_install(sched);
    if (HAVE_H2) carquet_verif_sched = dry ? hook_record : forced ? hook_force : NULL;
    else sb_puts(&o, " X=nohook");
    do_batches(&o, &h, bs, threads, projs, dry);
    if (HAVE_H2) carquet_verif_sched = NULL;
    g_shared_file = NULL;
    if (forced) {
        int realised = !g_abandon && g_cursor == g_slen;
        sb_printf(&o, " S=%lld", realised); sb_printf(&o, ":%lld", g_cursor); sb_printf(&o, ":%lld", g_slen);
        sb_printf(&o, ":%lld", g_timeouts); sb_printf(&o, ":%lld", g_extra); sb_printf(&o, ":%lld", g_waitidx); sb_printf(&o, ":%lld", g_cur_at_to);
    }
    close_handle(&h);
    fputs(o.s ? o.s : "", stdout);
    free(o.s);
}

/* ------------------------------------------------------------------ independent readers */
typedef struct { const char* path; const char* prog; sb_t out; pthread_barrier_t* bar; } indep_t;

static void prog_cpuinfo(sb_t* o) {
    /* the caller keeps the returned pointer and reads the struct whenever it likes: record every
     * distinct content seen in a short burst of reads right after the call (solo: exactly one) */
    const carquet_cpu_info_t* ci = carquet_get_cpu_info();
    carquet_cpu_info_t seen[4]; int nseen = 0;
    for (int it = 0; it < 20000; it++) {
        carquet_cpu_info_t copy; memcpy(&copy, ci, sizeof copy);
        int known = 0;
        for (int j = 0; j < nseen; j++) if (memcmp(&seen[j], &copy, sizeof copy) == 0) known = 1;
        if (!known && nseen < 4) seen[nseen++] = copy;
    }
    sb_puts(o, "I=");
    for (int j = 0; j < nseen; j++) { if (j) sb_putc(o, '|'); sb_hex(o, &seen[j], sizeof(carquet_cpu_info_t)); }
}
static void prog_crc(sb_t* o) {
    uint8_t buf[1027]; for (size_t i = 0; i < sizeof buf; i++) buf[i] = (uint8_t)(i * 131u + 7u);
    uint32_t a = carquet_crc32(buf, sizeof buf), b = carquet_crc32(buf + 3, 9), c = carquet_crc32(buf, 0);
    sb_puts(o, "K="); sb_hex(o, &a, 4); sb_hex(o, &b, 4); sb_hex(o, &c, 4);
}
static void prog_dispatch(sb_t* o) {
    int32_t dict[16]; uint32_t ix[37]; int32_t out[37]; int32_t ps[37]; float fl[19]; uint8_t bs[19 * 4]; uint8_t bools[5] = {0xa5, 0x3c, 0xff, 0x00, 0x81}; uint8_t ub[40]; int16_t dl[45];
    for (int i = 0; i < 16; i++) dict[i] = i * 1000003 - 7;
    for (int i = 0; i < 37; i++) { ix[i] = (uint32_t)((i * 7) % 16); ps[i] = i * 3 - 11; }
    for (int i = 0; i < 19 * 4; i++) bs[i] = (uint8_t)(i * 29 + 1);
    for (int i = 0; i < 45; i++) dl[i] = (int16_t)((i * 5) % 3 == 0);
    carquet_dispatch_gather_i32(dict, ix, 37, out);
    carquet_dispatch_prefix_sum_i32(ps, 37, 5);
    carquet_dispatch_byte_split_decode_float(bs, 19, fl);
    carquet_dispatch_unpack_bools(bools, ub, 40);
    long long nn = (long long)carquet_dispatch_count_non_nulls(dl, 45, 1);
    sb_puts(o, "D="); sb_hex(o, out, sizeof out); sb_hex(o, ps, sizeof ps); sb_hex(o, fl, sizeof fl); sb_hex(o, ub, sizeof ub); sb_printf(o, "%lld", nn);
}
static void prog_columns(sb_t* o, handle_t* h) {
    int32_t nrg = carquet_reader_num_row_groups(h->rd), nc = carquet_reader_num_columns(h->rd);
    const carquet_schema_t* s = carquet_reader_schema(h->rd);
    sb_puts(o, "C=");
    for (int32_t g = 0; g < nrg; g++) for (int32_t c = 0; c < nc; c++) {
        carquet_error_t err; memset(&err, 0, sizeof err);
        carquet_column_reader_t* cr = carquet_reader_get_column(h->rd, g, c, &err);
        if (!cr) { sb_printf(o, "/err%lld", (long long)err.code); continue; }
        const carquet_schema_node_t* nd = carquet_schema_get_element(s, s->leaf_indices[c]);
        int type = (int)carquet_schema_node_physical_type(nd), tlen = carquet_schema_node_type_length(nd);
        int64_t k = carquet_column_remaining(cr) + 3;
        void* vals = malloc(value_size(type, tlen) * (size_t)k + 1);
        int16_t* defs = (int16_t*)malloc(sizeof(int16_t) * (size_t)k); int16_t* reps = (int16_t*)malloc(sizeof(int16_t) * (size_t)k);
        int64_t n = carquet_column_read_batch(cr, vals, k, defs, reps);
        sb_printf(o, "/%lld,", (long long)n);
        int64_t nn = 0;
        for (int64_t i = 0; i < n; i++) { sb_putc(o, (char)('0' + (defs[i] & 15))); if (defs[i] == cr->max_def_level) nn++; }
        sb_putc(o, ',');
        if (n > 0) dump_values(o, vals, type, tlen, nn); else sb_putc(o, '-');
        free(vals); free(defs); free(reps);
        carquet_column_reader_free(cr);
    }
}
static void* indep_thread(void* arg) {
    indep_t* t = (indep_t*)arg;
    const char* p = t->prog;
    pthread_barrier_wait(t->bar);
    if (p[0] == 'I') prog_cpuinfo(&t->out);
    else if (p[0] == 'K') prog_crc(&t->out);
    else if (p[0] == 'D') prog_dispatch(&t->out);
    else if ((p[0] == 'O' || p[0] == 'V') && p[1] && p[2]) {
        handle_t h; int code = 0;
        if (!open_handle(&h, t->path, p[1], p[0] == 'V', &code)) { sb_printf(&t->out, "O=err:%lld", code); close_handle(&h); return NULL; }
        sb_puts(&t->out, "O=ok"); dump_meta(&t->out, h.rd); sb_putc(&t->out, ' ');
        if (p[2] == 'C') prog_columns(&t->out, &h);
        else if (p[2] == 'B') { sb_puts(&t->out, "B="); do_batches(&t->out, &h, 7, atoi(p + 3) > 0 ? atoi(p + 3) : 2, "-", 0); }
        close_handle(&h);
    } else sb_puts(&t->out, "?=prog");
    return NULL;
}
static int main_indep(int argc, char** argv) {
    if (argc < 4) { fputs("usage: h_par indep <path> <prog>...\n", stderr); return 3; }
    int n = argc - 3; if (n > 64) n = 64;
    indep_t* ts = (indep_t*)calloc((size_t)n, sizeof(indep_t)); pthread_t* th = (pthread_t*)calloc((size_t)n, sizeof(pthread_t));
    pthread_barrier_t bar; pthread_barrier_init(&bar, NULL, (unsigned)n);
    for (int i = 0; i < n; i++) { ts[i].path = argv[2]; ts[i].prog = argv[3 + i]; ts[i].bar = &bar; }
    for (int i = 0; i < n; i++) if (pthread_create(&th[i], NULL, indep_thread, &ts[i]) != 0) { fputs("pthread_create failed\n", stderr); return 3; }
    for (int i = 0; i < n; i++) pthread_join(th[i], NULL);
    for (int i = 0; i < n; i++) { printf("T %d %s %s\n", i, ts[i].prog, ts[i].out.s ? ts[i].out.s : "-"); free(ts[i].out.s); }
    free(ts); free(th);
    return 0;
}

int main(int argc, char** argv) {
    if (argc > 1 && strcmp(argv[1], "indep") == 0) return main_indep(argc, argv);
    vh_case_t c = {0};
    if (carquet_init() != CARQUET_OK) return 3;
    while (vh_next(&c)) {
        if (c.n < 2) continue;
        vh_begin(&c);
        fputs(c.tok[0], stdout);
        if (strcmp(c.tok[1], "dry") == 0) case_dry_run(&c, 1);
        else if (strcmp(c.tok[1], "run") == 0) case_dry_run(&c, 0);
        else fputs(" ?=cmd", stdout);
        vh_end();
    }
    vh_finish(&c);
    return 0;
}
