/* h_codec.c - replayer / recorder for the block codecs (C09, C10, decompressor part of C08).
 *
 * Dumb by design: expands descriptors to bytes, calls carquet, prints what happened.
 * Every verdict is taken by the TLA+ side (Snappy.tla / Lz4.tla / Codec.tla via TLC).
 *
 * codec token: snappy | lz4 | gzip | zstd
 * rope   ::= "-" | chunk ("," chunk)*      chunk ::= h<hex> | f<n>.<seed>.<start>
 *            (fill byte i (from 0) = ((i%251)*7 + (i/251)%256 + seed) % 256, as Lz.tla FillByte)
 * desc   ::= "-" | seg ("," seg)*          seg   ::= L<n>.<seed> | R<off>.<len> | C<n>.<m>
 *            (L: n bytes of xorshift32 noise; R: len bytes copied from `off` back, overlapping;
 *             C: n little-endian int64 values i % m)
 *
 *  <id> exp  <rope>                         -> <id> <len> <bytes>
 *  <id> expd <desc>                         -> <id> <len> <bytes>
 *  <id> dec  <codec> <cap> <rope>           -> <id> <st> <dlen> <bytes>
 *        decompress the stream into an exact-size destination of cap bytes
 *  <id> rec  <codec> <level> <desc>         -> <id> <st> <x hex> <c hex>     (compress into bound)
 *  <id> rt   <codec> <level> <capsel> <desc>
 *        capsel: 0 | 1 | bm1 | b | bp1 ; the full C09 observation, key=value tokens:
 *        n bound cap st clen clen2 wlen xh  and, if st = 0:  dst dlen dwl dh  s_cap s_st s_dlen
 *  <id> fz   <codec> <cap> <source>         -> <id> <st> <dlen> <srclen>
 *        source: raw:<rope> | rnd:<seed>:<len> | mut:<level>:<desc>:<mut>(+<mut>)*
 *        mut: T<k> keep first k | E<k> drop last k | S<p>.<v> set byte p | s<p>.<v> set byte p from end
 *             X<p>.<m> xor at p | x<p>.<m> xor at p from end | A<v> append byte | M<permille>.<m> xor at len*pm/1000
 *  <bytes> = hex when <= 4096 bytes, else #<fnv1a-64>; "-" when empty.
 *  st = carquet status code (0 = CARQUET_OK).
 */
#include "vh.h"
#include <carquet/error.h>

carquet_status_t carquet_snappy_compress(const uint8_t*, size_t, uint8_t*, size_t, size_t*);
carquet_status_t carquet_snappy_decompress(const uint8_t*, size_t, uint8_t*, size_t, size_t*);
size_t carquet_snappy_compress_bound(size_t);
carquet_status_t carquet_lz4_compress(const uint8_t*, size_t, uint8_t*, size_t, size_t*);
carquet_status_t carquet_lz4_decompress(const uint8_t*, size_t, uint8_t*, size_t, size_t*);
size_t carquet_lz4_compress_bound(size_t);
int carquet_gzip_compress(const uint8_t*, size_t, uint8_t*, size_t, size_t*, int);
int carquet_gzip_decompress(const uint8_t*, size_t, uint8_t*, size_t, size_t*);
size_t carquet_gzip_compress_bound(size_t);
int carquet_zstd_compress(const uint8_t*, size_t, uint8_t*, size_t, size_t*, int);
int carquet_zstd_decompress(const uint8_t*, size_t, uint8_t*, size_t, size_t*);
size_t carquet_zstd_compress_bound(size_t);

enum { SNAPPY, LZ4, GZIP, ZSTD };
static int codec_of(const char* s) {
    if (!strcmp(s, "snappy")) return SNAPPY;
    if (!strcmp(s, "lz4")) return LZ4;
    if (!strcmp(s, "gzip")) return GZIP;
    if (!strcmp(s, "zstd")) return ZSTD;
    fprintf(stderr, "unknown codec %s\n", s); exit(3);
}
#ifdef VH_REF
/* Reference build (-DVH_REF -lsnappy -llz4): the same protocol served by the system libsnappy /
 * liblz4. Used ONLY to self-check the TLA+ format specifications, never to judge carquet. */
#include <snappy-c.h>
#include <lz4.h>
static size_t c_bound(int c, size_t n) { return c == SNAPPY ? snappy_max_compressed_length(n) : (size_t)LZ4_compressBound((int)n); }
static int c_compress(int c, int level, const uint8_t* s, size_t n, uint8_t* d, size_t cap, size_t* out) {
    (void)level;
    if (c == SNAPPY) { size_t l = cap; int r = snappy_compress((const char*)s, n, (char*)d, &l); *out = l; return r; }
    if (c == LZ4) { int r = LZ4_compress_default((const char*)s, (char*)d, (int)n, (int)cap); if (r <= 0) return 1; *out = (size_t)r; return 0; }
    return 99;
}
static int c_decompress(int c, const uint8_t* s, size_t n, uint8_t* d, size_t cap, size_t* out) {
    if (c == SNAPPY) { size_t l = cap; int r = snappy_uncompress((const char*)s, n, (char*)d, &l); *out = l; return r; }
    if (c == LZ4) { int r = LZ4_decompress_safe((const char*)s, (char*)d, (int)n, (int)cap); if (r < 0) return 1; *out = (size_t)r; return 0; }
    return 99;
}
#else
static size_t c_bound(int c, size_t n) {
    switch (c) { case SNAPPY: return carquet_snappy_compress_bound(n); case LZ4: return carquet_lz4_compress_bound(n);
                 case GZIP: return carquet_gzip_compress_bound(n); default: return carquet_zstd_compress_bound(n); }
}
static int c_compress(int c, int level, const uint8_t* s, size_t n, uint8_t* d, size_t cap, size_t* out) {
    switch (c) { case SNAPPY: return carquet_snappy_compress(s, n, d, cap, out); case LZ4: return carquet_lz4_compress(s, n, d, cap, out);
                 case GZIP: return carquet_gzip_compress(s, n, d, cap, out, level); default: return carquet_zstd_compress(s, n, d, cap, out, level); }
}
static int c_decompress(int c, const uint8_t* s, size_t n, uint8_t* d, size_t cap, size_t* out) {
    switch (c) { case SNAPPY: return carquet_snappy_decompress(s, n, d, cap, out); case LZ4: return carquet_lz4_decompress(s, n, d, cap, out);
                 case GZIP: return carquet_gzip_decompress(s, n, d, cap, out); default: return carquet_zstd_decompress(s, n, d, cap, out); }
}

#endif

/* ---- exact-size buffers: heap (ASan redzones) for the instrumented codecs, guard pages for
 *      the ones that run inside uninstrumented system libraries (zlib, libzstd) ------------- */
typedef struct { uint8_t* p; size_t n; int guarded; vh_guard_t g; } xbuf_t;
static void xb_alloc(xbuf_t* b, size_t n, int guarded) {
    b->n = n; b->guarded = guarded;
    if (guarded) b->p = vh_guard_alloc(&b->g, n, 1);
    else { b->p = (uint8_t*)malloc(n); if (!b->p) { b->p = (uint8_t*)malloc(1); if (n) { fprintf(stderr, "oom %zu\n", n); exit(3); } } }
}
static void xb_free(xbuf_t* b) { if (b->guarded) vh_guard_free(&b->g); else free(b->p); b->p = NULL; }
static int guarded_codec(int c) { return c == GZIP || c == ZSTD; }

/* ---- growable byte vector ---- */
typedef struct { uint8_t* p; size_t n, cap; } vec_t;
static void v_need(vec_t* v, size_t extra) {
    if (v->n + extra > v->cap) { size_t c = v->cap ? v->cap : 256; while (c < v->n + extra) c *= 2; v->p = (uint8_t*)realloc(v->p, c); v->cap = c; if (!v->p) { fprintf(stderr, "oom\n"); exit(3); } }
}
static void v_free(vec_t* v) { free(v->p); v->p = NULL; v->n = v->cap = 0; }

static uint8_t fill_byte(uint32_t s, uint32_t i) { return (uint8_t)((((i % 251u) * 7u) + ((i / 251u) % 256u) + s) % 256u); }

static void expand_rope(const char* s, vec_t* v) {
    if (s[0] == '-' && (s[1] == 0)) return;
    const char* p = s;
    while (*p) {
        if (*p == 'h') {
            p++;
            while (vh_hexval(p[0]) >= 0 && vh_hexval(p[1]) >= 0) { v_need(v, 1); v->p[v->n++] = (uint8_t)((vh_hexval(p[0]) << 4) | vh_hexval(p[1])); p += 2; }
        } else if (*p == 'f') {
            char* e; unsigned long n = strtoul(p + 1, &e, 10); unsigned long sd = strtoul(e + 1, &e, 10); unsigned long o = strtoul(e + 1, &e, 10);
            v_need(v, n);
            for (unsigned long i = 0; i < n; i++) v->p[v->n++] = fill_byte((uint32_t)sd, (uint32_t)(o + i));
            p = e;
        } else { fprintf(stderr, "bad rope at '%s'\n", p); exit(3); }
        if (*p == ',') p++;
    }
}

static void expand_desc(const char* s, vec_t* v) {
    if (s[0] == '-' && (s[1] == 0)) return;
    const char* p = s;
    while (*p) {
        char kind = *p; char* e;
        unsigned long a = strtoul(p + 1, &e, 10); unsigned long b = strtoul(e + 1, &e, 10);
        if (kind == 'L') {
            uint32_t st = (uint32_t)b * 2654435761u + 0x9E3779B9u; if (!st) st = 1;
            v_need(v, a);
            for (unsigned long i = 0; i < a; i++) {
                if ((i & 3) == 0) { st ^= st << 13; st ^= st >> 17; st ^= st << 5; }
                v->p[v->n++] = (uint8_t)(st >> (8 * (i & 3)));
            }
        } else if (kind == 'C') {
            v_need(v, 8 * a);
            for (unsigned long i = 0; i < a; i++) { uint64_t val = b ? i % b : i; memcpy(v->p + v->n, &val, 8); v->n += 8; }
        } else if (kind == 'V') {
            /* a int32 values drawn (xorshift, seed b) from the b%29+2 values {0, 1000, 2000, ..}: a low-cardinality
             * column in random order */
            uint32_t st = (uint32_t)b * 2654435761u + 0x9E3779B9u, card = (uint32_t)(b % 29) + 2; if (!st) st = 1;
            v_need(v, 4 * a);
            for (unsigned long i = 0; i < a; i++) {
                st ^= st << 13; st ^= st >> 17; st ^= st << 5;
                uint32_t val = ((st >> 7) % card) * 1000u; memcpy(v->p + v->n, &val, 4); v->n += 4;
            }
        } else if (kind == 'R') {
            if (a == 0 || a > v->n) { fprintf(stderr, "bad repeat offset %lu at %zu\n", a, v->n); exit(3); }
            v_need(v, b);
            for (unsigned long i = 0; i < b; i++) { v->p[v->n] = v->p[v->n - a]; v->n++; }
        } else { fprintf(stderr, "bad desc at '%s'\n", p); exit(3); }
        p = e;
        if (*p == ',') p++;
    }
}

static uint64_t fnv(const uint8_t* p, size_t n) {
    uint64_t h = 1469598103934665603ull;
    for (size_t i = 0; i < n; i++) { h ^= p[i]; h *= 1099511628211ull; }
    return h;
}
static void put_bytes(const uint8_t* p, size_t n) {
    if (n <= 4096) vh_puthex(p, n); else printf("#%016llx", (unsigned long long)fnv(p, n));
}

/* number of leading bytes of buf[0..cap) that differ from the fill pattern somewhere at or
 * after them, i.e. 1 + index of the last modified byte */
static size_t extent(const uint8_t* buf, size_t cap, uint8_t pat) {
    size_t k = cap;
    while (k > 0 && buf[k - 1] == pat) k--;
    return k;
}

static void do_dec(vh_case_t* c) {
    int codec = codec_of(c->tok[2]);
    size_t cap = (size_t)vh_ull(c->tok[3]);
    vec_t s = {0}; expand_rope(c->tok[4], &s);
    xbuf_t src, dst; int g = guarded_codec(codec);
    xb_alloc(&src, s.n, g); if (s.n) memcpy(src.p, s.p, s.n);
    xb_alloc(&dst, cap, g); memset(dst.p, 0xA5, cap);
    size_t out = (size_t)-1;
    int st = c_decompress(codec, src.p, s.n, dst.p, cap, &out);
    printf("%s %d ", c->tok[0], st);
    if (st == 0) { printf("%zu ", out); if (out <= cap) put_bytes(dst.p, out); else fputs("?", stdout); }
    else fputs("0 -", stdout);
    xb_free(&src); xb_free(&dst); v_free(&s);
}

static void do_rec(vh_case_t* c) {
    int codec = codec_of(c->tok[2]); int level = atoi(c->tok[3]);
    vec_t x = {0}; expand_desc(c->tok[4], &x);
    xbuf_t src, dst; int g = guarded_codec(codec);
    size_t bound = c_bound(codec, x.n);
    xb_alloc(&src, x.n, g); if (x.n) memcpy(src.p, x.p, x.n);
    xb_alloc(&dst, bound, g);
    size_t out = 0;
    int st = c_compress(codec, level, src.p, x.n, dst.p, bound, &out);
    printf("%s %d ", c->tok[0], st); vh_puthex(x.p, x.n); fputc(' ', stdout);
    if (st == 0 && out <= bound) vh_puthex(dst.p, out); else fputs("-", stdout);
    xb_free(&src); xb_free(&dst); v_free(&x);
}

static void do_rt(vh_case_t* c) {
    int codec = codec_of(c->tok[2]); int level = atoi(c->tok[3]); const char* sel = c->tok[4];
    vec_t x = {0}; expand_desc(c->tok[5], &x);
    int g = guarded_codec(codec);
    size_t bound = c_bound(codec, x.n), cap;
    if (!strcmp(sel, "b")) cap = bound; else if (!strcmp(sel, "bm1")) cap = bound ? bound - 1 : 0;
    else if (!strcmp(sel, "bp1")) cap = bound + 1; else cap = (size_t)vh_ull(sel);
    xbuf_t src; xb_alloc(&src, x.n, g); if (x.n) memcpy(src.p, x.p, x.n);
    uint64_t xh = fnv(x.p, x.n);
    /* two runs with complementary fill patterns: a byte the call wrote differs from at least one */
    xbuf_t d1, d2; xb_alloc(&d1, cap, g); xb_alloc(&d2, cap, g);
    memset(d1.p, 0xAA, cap); memset(d2.p, 0x55, cap);
    size_t l1 = (size_t)-1, l2 = (size_t)-1;
    int st = c_compress(codec, level, src.p, x.n, d1.p, cap, &l1);
    int st2 = c_compress(codec, level, src.p, x.n, d2.p, cap, &l2);
    size_t w1 = extent(d1.p, cap, 0xAA), w2 = extent(d2.p, cap, 0x55);
    size_t wlen = w1 > w2 ? w1 : w2;
    printf("%s n=%zu bound=%zu cap=%zu st=%d st2=%d clen=%zu clen2=%zu wlen=%zu xh=%016llx", c->tok[0], x.n, bound, cap,
           st, st2, st == 0 ? l1 : 0, st2 == 0 ? l2 : 0, wlen, (unsigned long long)xh);
    if (st == 0 && l1 <= cap) {
        /* the compressed block in an exact-size source buffer */
        xbuf_t cs; xb_alloc(&cs, l1, g); if (l1) memcpy(cs.p, d1.p, l1);
        xbuf_t o; xb_alloc(&o, x.n, g); memset(o.p, 0xAA, x.n);
        size_t dl = (size_t)-1;
        int dst = c_decompress(codec, cs.p, l1, o.p, x.n, &dl);
        size_t dw = extent(o.p, x.n, 0xAA);
        uint64_t dh = (dst == 0 && dl <= x.n) ? fnv(o.p, dl) : 0;
        printf(" dst=%d dlen=%zu dwl=%zu dh=%016llx", dst, dst == 0 ? dl : 0, dw, (unsigned long long)dh);
        xb_free(&o);
        /* a destination one byte too small */
        if (x.n > 0) {
            xbuf_t o2; xb_alloc(&o2, x.n - 1, g); memset(o2.p, 0xAA, x.n - 1);
            size_t dl2 = (size_t)-1;
            int st3 = c_decompress(codec, cs.p, l1, o2.p, x.n - 1, &dl2);
            printf(" s_cap=%zu s_st=%d s_dlen=%zu", x.n - 1, st3, st3 == 0 ? dl2 : 0);
            xb_free(&o2);
        }
        xb_free(&cs);
    }
    xb_free(&d1); xb_free(&d2); xb_free(&src); v_free(&x);
}

static void apply_mut(vec_t* v, const char* m) {
    while (*m) {
        char k = *m; char* e;
        unsigned long a = strtoul(m + 1, &e, 10), b = 0;
        if (*e == '.') b = strtoul(e + 1, &e, 10);
        switch (k) {
            case 'T': if (a < v->n) v->n = a; break;
            case 'E': v->n = a < v->n ? v->n - a : 0; break;
            case 'S': if (a < v->n) v->p[a] = (uint8_t)b; break;
            case 's': if (a < v->n) v->p[v->n - 1 - a] = (uint8_t)b; break;
            case 'X': if (a < v->n) v->p[a] ^= (uint8_t)b; break;
            case 'x': if (a < v->n) v->p[v->n - 1 - a] ^= (uint8_t)b; break;
            case 'A': v_need(v, 1); v->p[v->n++] = (uint8_t)a; break;
            case 'M': if (v->n) { size_t p = (size_t)(((unsigned long long)v->n * a) / 1000u); if (p >= v->n) p = v->n - 1; v->p[p] ^= (uint8_t)b; } break;
            default: fprintf(stderr, "bad mutation '%s'\n", m); exit(3);
        }
        m = e;
        if (*m == '+') m++;
    }
}

static void do_fz(vh_case_t* c) {
    int codec = codec_of(c->tok[2]);
    size_t cap = (size_t)vh_ull(c->tok[3]);
    char* srcs = c->tok[4];
    vec_t s = {0};
    if (!strncmp(srcs, "raw:", 4)) expand_rope(srcs + 4, &s);
    else if (!strncmp(srcs, "rnd:", 4)) {
        char* e; unsigned long seed = strtoul(srcs + 4, &e, 10); unsigned long n = strtoul(e + 1, &e, 10);
        uint32_t st = (uint32_t)seed * 2246822519u + 374761393u; if (!st) st = 1;
        v_need(&s, n);
        for (unsigned long i = 0; i < n; i++) { st ^= st << 13; st ^= st >> 17; st ^= st << 5; s.p[s.n++] = (uint8_t)(st >> 11); }
    } else if (!strncmp(srcs, "mut:", 4)) {
        char* e; int level = (int)strtol(srcs + 4, &e, 10);
        char* desc = e + 1; char* mut = strchr(desc, ':'); *mut++ = 0;
        vec_t x = {0}; expand_desc(desc, &x);
        size_t bound = c_bound(codec, x.n), out = 0;
        v_need(&s, bound + 1);
        int st = c_compress(codec, level, x.p ? x.p : (const uint8_t*)"", x.n, s.p, bound, &out);
        if (st != 0 || out > bound) { printf("%s ERR compress-failed %d", c->tok[0], st); v_free(&x); v_free(&s); return; }
        s.n = out;
        apply_mut(&s, mut);
        v_free(&x);
    } else { printf("%s ERR bad-source", c->tok[0]); return; }
    xbuf_t src, dst; int g = guarded_codec(codec);
    xb_alloc(&src, s.n, g); if (s.n) memcpy(src.p, s.p, s.n);
    xb_alloc(&dst, cap, g);
    size_t out = (size_t)-1;
    int st = c_decompress(codec, src.p, s.n, dst.p, cap, &out);
    printf("%s %d %zu %zu", c->tok[0], st, st == 0 ? out : 0, s.n);
    xb_free(&src); xb_free(&dst); v_free(&s);
}

int main(void) {
    vh_case_t c = {0};
    while (vh_next(&c)) {
        if (c.n < 2) continue;
        vh_begin(&c);
        const char* op = c.tok[1];
        if (!strcmp(op, "dec") && c.n >= 5) do_dec(&c);
        else if (!strcmp(op, "rec") && c.n >= 5) do_rec(&c);
        else if (!strcmp(op, "rt") && c.n >= 6) do_rt(&c);
        else if (!strcmp(op, "fz") && c.n >= 5) do_fz(&c);
        else if (!strcmp(op, "exp") && c.n >= 3) {
            vec_t v = {0}; expand_rope(c.tok[2], &v);
            printf("%s %zu ", c.tok[0], v.n); put_bytes(v.p, v.n); v_free(&v);
        } else if (!strcmp(op, "expd") && c.n >= 3) {
            vec_t v = {0}; expand_desc(c.tok[2], &v);
            printf("%s %zu ", c.tok[0], v.n); put_bytes(v.p, v.n); v_free(&v);
        } else printf("%s ERR unknown-op", c.tok[0]);
        vh_end();
    }
    vh_finish(&c);
    return 0;
}
