/* h_stats.c - replayer for the statistics / pruning API (C16).
 *
 * One case per line: "<id> <cmd> <cmd> ...", each command prints one token "<letter>=<fields>".
 * The harness only copies bytes in and out of the library; it never judges.
 *
 * Byte strings are lowercase hex, "-" = empty (present, length 0), "~" = absent (NULL pointer).
 * Every value / bound handed to the library lives in its own exact-size heap buffer.
 * Value lists: fixed-size types are concatenated; BYTE_ARRAY = 4-byte LE length + bytes each.
 *
 * Statistics builder (src/metadata/statistics.c, not declared in a header):
 *   T:<type>:<tlen>        create          V:<valueshex>   add_values / add_byte_arrays
 *   N:<count>              add_nulls       E               reset
 *   U[:a]                  build (a = into an arena)  -> U=st:hasnull:nulls:hasmin:min:hasmax:max:hasdist
 *   D                      destroy
 * Helpers:
 *   C:<type>:<smin>:<smax>:<value>                   carquet_statistics_compare        -> C=st:result
 *   R:<type>:<smin>:<smax>:<qmin>:<qmax>:<vlen>      carquet_statistics_range_overlaps -> R=st:overlaps
 *   I:<type>:<tlen>  create column-index builder     A:<nulls>:<min>:<max>:<isnull>  add_page -> A=st
 *   Q:<page>:<qmin>:<qmax>:<vlen>  carquet_column_index_page_might_match -> Q=st:might      J  destroy
 * Reader (public API):
 *   O:<path>                         open            -> O=ok:<row groups>:<columns> | O=err:<code>
 *   S:<rg>:<col>                     column_statistics -> S=st:numvalues:hasnull:nulls:hasdist:dist:hasminmax:min:max
 *   M:<rg>:<col>:<op>:<value>        row_group_matches -> M=st:might
 *   F:<col>:<op>:<value>:<cap>       filter_row_groups -> F=ret:i,j,..
 *   Z                                close
 */
#include "vh.h"
#include <carquet/carquet.h>
#include "thrift/parquet_types.h"
#include "core/arena.h"
#include "core/buffer.h"

/* internal entry points (non-static, linkable from libcarquet.a) */
typedef struct carquet_statistics_builder carquet_statistics_builder_t;
carquet_statistics_builder_t* carquet_statistics_builder_create(carquet_physical_type_t type, int32_t type_length);
void carquet_statistics_builder_destroy(carquet_statistics_builder_t* builder);
void carquet_statistics_builder_reset(carquet_statistics_builder_t* builder);
void carquet_statistics_add_nulls(carquet_statistics_builder_t* builder, int64_t count);
carquet_status_t carquet_statistics_add_values(carquet_statistics_builder_t* builder, const void* values, int64_t num_values);
carquet_status_t carquet_statistics_add_byte_arrays(carquet_statistics_builder_t* builder, const carquet_byte_array_t* values, int64_t num_values);
carquet_status_t carquet_statistics_build(const carquet_statistics_builder_t* builder, carquet_arena_t* arena, parquet_statistics_t* stats);
carquet_status_t carquet_statistics_compare(const parquet_statistics_t* stats, carquet_physical_type_t type, const void* value, size_t value_len, int* result);
carquet_status_t carquet_statistics_range_overlaps(const parquet_statistics_t* stats, carquet_physical_type_t type, const void* min_value, const void* max_value, size_t value_len, bool* overlaps);
typedef struct carquet_column_index_builder carquet_column_index_builder_t;
carquet_column_index_builder_t* carquet_column_index_builder_create(carquet_physical_type_t type, int32_t type_length);
void carquet_column_index_builder_destroy(carquet_column_index_builder_t* builder);
carquet_status_t carquet_column_index_add_page(carquet_column_index_builder_t* builder, int64_t null_count, const void* min_value, int32_t min_value_len, const void* max_value, int32_t max_value_len, bool is_null_page);
carquet_status_t carquet_column_index_page_might_match(const carquet_column_index_builder_t* builder, int32_t page_idx, const void* min_value, const void* max_value, int32_t value_len, bool* might_match);

static carquet_statistics_builder_t* g_sb = NULL;
static int g_sb_type = 0, g_sb_tlen = 0;
static carquet_column_index_builder_t* g_ci = NULL;
static carquet_reader_t* g_reader = NULL;

static char* field(char* s, int k) {
    static char* buf[8]; static size_t cap[8]; static int slot = 0;
    const char* p = s;
    for (int i = 0; i < k; i++) { p = strchr(p, ':'); if (!p) return NULL; p++; }
    const char* e = strchr(p, ':');
    size_t n = e ? (size_t)(e - p) : strlen(p);
    int sl = slot; slot = (slot + 1) % 8;
    if (cap[sl] < n + 1) { cap[sl] = n + 1; buf[sl] = (char*)realloc(buf[sl], cap[sl]); }
    memcpy(buf[sl], p, n); buf[sl][n] = 0;
    return buf[sl];
}

/* "~" -> NULL (absent); otherwise exact-size buffer */
static uint8_t* opt_unhex(const char* s, size_t* len) {
    if (!s || (s[0] == '~' && s[1] == 0)) { *len = 0; return NULL; }
    return vh_unhex(s, len);
}

static size_t fixed_size(int type, int tlen) {
    switch (type) {
        case CARQUET_PHYSICAL_BOOLEAN: return 1;
        case CARQUET_PHYSICAL_INT32: case CARQUET_PHYSICAL_FLOAT: return 4;
        case CARQUET_PHYSICAL_INT64: case CARQUET_PHYSICAL_DOUBLE: return 8;
        case CARQUET_PHYSICAL_INT96: return 12;
        case CARQUET_PHYSICAL_FIXED_LEN_BYTE_ARRAY: return tlen > 0 ? (size_t)tlen : 0;
        default: return 0;
    }
}

/* ------------------------------------------------------------------------------- builder */
static void cmd_sb_values(char* t) {
    if (!g_sb) { fputs(" V=nobuilder", stdout); return; }
    size_t n; uint8_t* raw = vh_unhex(field(t, 1), &n);
    carquet_status_t st;
    if (g_sb_type == CARQUET_PHYSICAL_BYTE_ARRAY) {
        int64_t cnt = 0; size_t p = 0;
        while (p + 4 <= n) { uint32_t l; memcpy(&l, raw + p, 4); p += 4 + l; cnt++; }
        carquet_byte_array_t* arr = (carquet_byte_array_t*)malloc(sizeof(*arr) * (size_t)(cnt ? cnt : 1));
        p = 0;
        for (int64_t i = 0; i < cnt; i++) {
            uint32_t l; memcpy(&l, raw + p, 4); p += 4;
            uint8_t* d = (uint8_t*)malloc(l ? l : 1);          /* exact-size buffer per value */
            memcpy(d, raw + p, l); p += l;
            arr[i].data = d; arr[i].length = (int32_t)l;
        }
        st = carquet_statistics_add_byte_arrays(g_sb, arr, cnt);
        for (int64_t i = 0; i < cnt; i++) free((void*)arr[i].data);
        free(arr);
    } else {
        size_t w = fixed_size(g_sb_type, g_sb_tlen);
        st = carquet_statistics_add_values(g_sb, raw, w ? (int64_t)(n / w) : 0);
    }
    free(raw);
    printf(" V=%d", (int)st);
}

static void cmd_sb_build(char* t) {
    if (!g_sb) { fputs(" U=nobuilder", stdout); return; }
    char* m = field(t, 1);
    int use_arena = m && m[0] == 'a';
    carquet_arena_t arena; int have_arena = 0;
    if (use_arena) have_arena = carquet_arena_init(&arena) == CARQUET_OK;
    parquet_statistics_t ps; memset(&ps, 0x5a, sizeof ps);
    carquet_status_t st = carquet_statistics_build(g_sb, have_arena ? &arena : NULL, &ps);
    if (st != CARQUET_OK) { printf(" U=%d", (int)st); if (have_arena) carquet_arena_destroy(&arena); return; }
    printf(" U=0:%d:%lld:%d:", ps.has_null_count ? 1 : 0, (long long)ps.null_count, ps.min_value ? 1 : 0);
    if (ps.min_value) vh_puthex(ps.min_value, (size_t)ps.min_value_len); else fputc('~', stdout);
    printf(":%d:", ps.max_value ? 1 : 0);
    if (ps.max_value) vh_puthex(ps.max_value, (size_t)ps.max_value_len); else fputc('~', stdout);
    printf(":%d", ps.has_distinct_count ? 1 : 0);
    if (have_arena) carquet_arena_destroy(&arena);
    else { free(ps.min_value); free(ps.max_value); }
}

/* ------------------------------------------------------------------------------- helpers */
static void fill_stats(parquet_statistics_t* ps, char* smin, char* smax, uint8_t** a, uint8_t** b) {
    memset(ps, 0, sizeof *ps);
    size_t la, lb;
    *a = opt_unhex(smin, &la); *b = opt_unhex(smax, &lb);
    ps->min_value = *a; ps->min_value_len = (int32_t)la;
    ps->max_value = *b; ps->max_value_len = (int32_t)lb;
}

static void cmd_compare(char* t) {
    int type = atoi(field(t, 1));
    parquet_statistics_t ps; uint8_t *a, *b;
    fill_stats(&ps, field(t, 2), field(t, 3), &a, &b);
    size_t lv; uint8_t* v = vh_unhex(field(t, 4), &lv);
    int result = 77;
    carquet_status_t st = carquet_statistics_compare(&ps, (carquet_physical_type_t)type, v, lv, &result);
    printf(" C=%d:%d", (int)st, result);
    free(a); free(b); free(v);
}

static void cmd_overlaps(char* t) {
    int type = atoi(field(t, 1));
    parquet_statistics_t ps; uint8_t *a, *b;
    fill_stats(&ps, field(t, 2), field(t, 3), &a, &b);
    size_t l1, l2; uint8_t* q1 = opt_unhex(field(t, 4), &l1); uint8_t* q2 = opt_unhex(field(t, 5), &l2);
    size_t vlen = (size_t)vh_ll(field(t, 6));
    bool ov = false;
    carquet_status_t st = carquet_statistics_range_overlaps(&ps, (carquet_physical_type_t)type, q1, q2, vlen, &ov);
    printf(" R=%d:%d", (int)st, ov ? 1 : 0);
    free(a); free(b); free(q1); free(q2);
}

static void cmd_ci_add(char* t) {
    if (!g_ci) { fputs(" A=nobuilder", stdout); return; }
    long long nulls = vh_ll(field(t, 1));
    size_t la, lb; uint8_t* a = opt_unhex(field(t, 2), &la); uint8_t* b = opt_unhex(field(t, 3), &lb);
    int isnull = atoi(field(t, 4));
    carquet_status_t st = carquet_column_index_add_page(g_ci, nulls, a, (int32_t)la, b, (int32_t)lb, isnull != 0);
    printf(" A=%d", (int)st);
    free(a); free(b);
}

static void cmd_ci_query(char* t) {
    if (!g_ci) { fputs(" Q=nobuilder", stdout); return; }
    int page = atoi(field(t, 1));
    size_t l1, l2; uint8_t* q1 = opt_unhex(field(t, 2), &l1); uint8_t* q2 = opt_unhex(field(t, 3), &l2);
    int vlen = atoi(field(t, 4));
    bool m = false;
    carquet_status_t st = carquet_column_index_page_might_match(g_ci, page, q1, q2, vlen, &m);
    printf(" Q=%d:%d", (int)st, m ? 1 : 0);
    free(q1); free(q2);
}

/* -------------------------------------------------------------------------------- reader */
static void cmd_open(char* t) {
    carquet_reader_options_t opt; carquet_reader_options_init(&opt);
    carquet_error_t err; memset(&err, 0, sizeof err);
    g_reader = carquet_reader_open(field(t, 1), &opt, &err);
    if (g_reader) printf(" O=ok:%d:%d", carquet_reader_num_row_groups(g_reader), carquet_reader_num_columns(g_reader));
    else printf(" O=err:%d", (int)err.code);
}

static void cmd_colstats(char* t) {
    if (!g_reader) { fputs(" S=noreader", stdout); return; }
    carquet_column_statistics_t cs; memset(&cs, 0x5a, sizeof cs);
    carquet_status_t st = carquet_reader_column_statistics(g_reader, atoi(field(t, 1)), atoi(field(t, 2)), &cs);
    if (st != CARQUET_OK) { printf(" S=%d", (int)st); return; }
    printf(" S=0:%lld:%d:%lld:%d:%lld:%d:", (long long)cs.num_values, cs.has_null_count ? 1 : 0,
           cs.has_null_count ? (long long)cs.null_count : 0LL, cs.has_distinct_count ? 1 : 0,
           cs.has_distinct_count ? (long long)cs.distinct_count : 0LL, cs.has_min_max ? 1 : 0);
    if (cs.has_min_max) { vh_puthex(cs.min_value, (size_t)cs.min_value_size); fputc(':', stdout); vh_puthex(cs.max_value, (size_t)cs.max_value_size); }
    else fputs("~:~", stdout);
}

static void cmd_matches(char* t) {
    if (!g_reader) { fputs(" M=noreader", stdout); return; }
    size_t lv; uint8_t* v = vh_unhex(field(t, 4), &lv);
    bool m = false;
    carquet_status_t st = carquet_reader_row_group_matches(g_reader, atoi(field(t, 1)), atoi(field(t, 2)),
                                                           (carquet_compare_op_t)atoi(field(t, 3)), v, (int32_t)lv, &m);
    printf(" M=%d:%d", (int)st, m ? 1 : 0);
    free(v);
}

static void cmd_filter(char* t) {
    if (!g_reader) { fputs(" F=noreader", stdout); return; }
    size_t lv; uint8_t* v = vh_unhex(field(t, 3), &lv);
    int cap = atoi(field(t, 4));
    int32_t* idx = (int32_t*)malloc(sizeof(int32_t) * (size_t)(cap > 0 ? cap : 1));    /* exact size: an overrun is an ASan fault */
    for (int i = 0; i < (cap > 0 ? cap : 1); i++) idx[i] = -7;
    int32_t r = carquet_reader_filter_row_groups(g_reader, atoi(field(t, 1)), (carquet_compare_op_t)atoi(field(t, 2)),
                                                 v, (int32_t)lv, idx, cap);
    printf(" F=%d:", (int)r);
    if (r <= 0 || r > cap) fputc('-', stdout);
    else for (int i = 0; i < r; i++) printf("%s%d", i ? "," : "", (int)idx[i]);
    free(idx); free(v);
}

static void reset_all(void) {
    if (g_sb) { carquet_statistics_builder_destroy(g_sb); g_sb = NULL; }
    if (g_ci) { carquet_column_index_builder_destroy(g_ci); g_ci = NULL; }
    if (g_reader) { carquet_reader_close(g_reader); g_reader = NULL; }
}

int main(void) {
    vh_case_t c = {0};
    if (carquet_init() != CARQUET_OK) return 3;
    while (vh_next(&c)) {
        if (c.n < 1) continue;
        vh_begin(&c);
        fputs(c.tok[0], stdout);
        for (int i = 1; i < c.n; i++) {
            char* t = c.tok[i];
            switch (t[0]) {
                case 'T': if (g_sb) carquet_statistics_builder_destroy(g_sb);
                          g_sb_type = atoi(field(t, 1)); g_sb_tlen = atoi(field(t, 2));
                          g_sb = carquet_statistics_builder_create((carquet_physical_type_t)g_sb_type, g_sb_tlen);
                          fputs(g_sb ? " T=ok" : " T=null", stdout); break;
                case 'V': cmd_sb_values(t); break;
                case 'N': if (g_sb) { carquet_statistics_add_nulls(g_sb, vh_ll(field(t, 1))); fputs(" N=ok", stdout); } else fputs(" N=nobuilder", stdout); break;
                case 'E': if (g_sb) { carquet_statistics_builder_reset(g_sb); fputs(" E=ok", stdout); } else fputs(" E=nobuilder", stdout); break;
                case 'U': cmd_sb_build(t); break;
                case 'D': if (g_sb) { carquet_statistics_builder_destroy(g_sb); g_sb = NULL; } fputs(" D=ok", stdout); break;
                case 'C': cmd_compare(t); break;
                case 'R': cmd_overlaps(t); break;
                case 'I': if (g_ci) carquet_column_index_builder_destroy(g_ci);
                          g_ci = carquet_column_index_builder_create((carquet_physical_type_t)atoi(field(t, 1)), atoi(field(t, 2)));
                          fputs(g_ci ? " I=ok" : " I=null", stdout); break;
                case 'A': cmd_ci_add(t); break;
                case 'Q': cmd_ci_query(t); break;
                case 'J': if (g_ci) { carquet_column_index_builder_destroy(g_ci); g_ci = NULL; } fputs(" J=ok", stdout); break;
                case 'O': cmd_open(t); break;
                case 'S': cmd_colstats(t); break;
                case 'M': cmd_matches(t); break;
                case 'F': cmd_filter(t); break;
                case 'Z': if (g_reader) { carquet_reader_close(g_reader); g_reader = NULL; } fputs(" Z=ok", stdout); break;
                default: printf(" ?=%c", t[0]); break;
            }
        }
        reset_all();
        vh_end();
    }
    vh_finish(&c);
    return 0;
}
