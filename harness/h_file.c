/* h_file.c - replayer for API histories on the public writer / reader / batch-reader API.
 *
 * One case per line: "<id> <cmd> <cmd> ...". Each command prints one result token
 * "<letter>=<fields>" (fields separated by ':'), so a case's output is "<id> tok tok ...".
 * The harness only copies bytes in and out; it never judges.
 *
 * Value wire format (hex): BOOLEAN one byte per value; INT32/FLOAT 4 bytes; INT64/DOUBLE 8;
 * INT96 12; FIXED_LEN_BYTE_ARRAY type_length bytes; BYTE_ARRAY 4-byte LE length + bytes.
 * Only the non-null values are transmitted (dense), as in the carquet API.
 *
 * Writer:  S:<namehex>:<type>:<rep>:<tlen>   add a column to the schema under construction
 *          W:<path>:<codec>:<pagesize>[:<mode>]  create writer (mode p=path (default), f=FILE*)
 *          B:<col>:<nrows>:<defs|->:<valueshex>   write_batch (defs = string of level digits)
 *          G  new_row_group      C  close      A  abort      F:<path>  dump file bytes
 * Reader:  O:<path>:<mode>[:<verify>]  open, mode f=fread m=mmap b=buffer
 *          M  metadata + schema dump    K:<rg>:<col>  get_column (selects it as current)
 *          R:<k>[:<nolevels>] read_batch   P:<k> skip   Q has_next/remaining   X free column
 *          T:<batch_size>:<threads>:<byname>:<c,c,..|->  batch reader create
 *          N  batch next (batches are kept alive)   V  re-verify all kept batches   Y  free batch reader
 *          U  free kept batches   Z  close reader
 *          E:<rg>:<col> / I:<rg> out-of-range probes are just K / M with bad indices.
 */
#include "vh.h"
#include <carquet/carquet.h>
#include "reader/reader_internal.h"
#include <errno.h>

#define MAXCOLS 1100
#define MAXKEPT 256

typedef struct { char name[256]; int type, rep, tlen; } coldef_t;

static coldef_t g_cols[MAXCOLS];
static int g_ncols = 0;
static carquet_schema_t* g_schema = NULL;
static carquet_writer_t* g_writer = NULL;
static FILE* g_wfile = NULL;
static carquet_reader_t* g_reader = NULL;
static uint8_t* g_filebuf = NULL;           /* buffer-mode backing store (exact size) */
static carquet_column_reader_t* g_col = NULL;
static int g_col_type = 0, g_col_tlen = 0, g_col_maxdef = 0;
static carquet_batch_reader_t* g_br = NULL;
static int g_proj[MAXCOLS]; static int g_nproj = 0;

/* last byte arrays handed out by read_batch on the current column: re-read before next call */
static carquet_byte_array_t* g_last_ba = NULL; static int64_t g_last_ba_n = 0; static uint8_t* g_last_snapshot = NULL; static size_t g_last_snapshot_len = 0;

typedef struct { carquet_row_batch_t* b; uint8_t* snap; size_t snaplen; } kept_t;
static kept_t g_kept[MAXKEPT]; static int g_nkept = 0;

static size_t value_size(int type, int tlen) {
    switch (type) {
        case CARQUET_PHYSICAL_BOOLEAN: return 1;
        case CARQUET_PHYSICAL_INT32: case CARQUET_PHYSICAL_FLOAT: return 4;
        case CARQUET_PHYSICAL_INT64: case CARQUET_PHYSICAL_DOUBLE: return 8;
        case CARQUET_PHYSICAL_INT96: return 12;
        case CARQUET_PHYSICAL_FIXED_LEN_BYTE_ARRAY: return tlen > 0 ? (size_t)tlen : 0;
        case CARQUET_PHYSICAL_BYTE_ARRAY: return sizeof(carquet_byte_array_t);
        default: return 0;
    }
}

static char* field(char* s, int k) {            /* k-th ':'-separated field (0-based), destructive-free copy */
    static char* buf[8];                        /* slots grow to the longest field seen (value dumps of long columns) */
    static size_t cap[8];
    static int slot = 0;
    const char* p = s;
    for (int i = 0; i < k; i++) { p = strchr(p, ':'); if (!p) return NULL; p++; }
    const char* e = strchr(p, ':');
    size_t n = e ? (size_t)(e - p) : strlen(p);
    int sl = slot; slot = (slot + 1) % 8;
    if (n + 1 > cap[sl]) { cap[sl] = n + 1 + (n >> 2) + 64; buf[sl] = (char*)realloc(buf[sl], cap[sl]); }
    char* out = buf[sl];
    memcpy(out, p, n); out[n] = 0;
    return out;
}

static void recheck_last(void) {
    /* "byte-array values stay readable until the next call on that column reader" */
    if (!g_last_ba) return;
    size_t off = 0; int bad = 0;
    for (int64_t i = 0; i < g_last_ba_n; i++) {
        if (g_last_ba[i].length > 0 && memcmp(g_last_ba[i].data, g_last_snapshot + off, (size_t)g_last_ba[i].length) != 0) bad = 1;
        off += (size_t)g_last_ba[i].length;
    }
    if (bad) fputs(" L=changed", stdout);
    free(g_last_ba); free(g_last_snapshot); g_last_ba = NULL; g_last_snapshot = NULL; g_last_ba_n = 0;
}

static int ba_sane(const carquet_byte_array_t* a, int64_t nn) {
    for (int64_t i = 0; i < nn; i++) if (a[i].length < 0 || a[i].length > (1 << 26) || (a[i].length > 0 && !a[i].data)) return 0;
    return 1;
}

static void dump_values(const void* vals, int type, int tlen, int64_t nn) {
    if (type == CARQUET_PHYSICAL_BYTE_ARRAY) {
        const carquet_byte_array_t* a = (const carquet_byte_array_t*)vals;
        int any = 0;
        if (!ba_sane(a, nn)) { fputs("!badlen", stdout); return; }
        for (int64_t i = 0; i < nn; i++) {
            uint32_t l = (uint32_t)a[i].length;
            vh_puthex(&l, 4); any = 1;
            if (a[i].length > 0) { static const char* d = "0123456789abcdef"; for (int32_t j = 0; j < a[i].length; j++) { fputc(d[a[i].data[j] >> 4], stdout); fputc(d[a[i].data[j] & 15], stdout); } }
        }
        if (!any) fputc('-', stdout);
    } else {
        size_t nb = (size_t)nn * value_size(type, tlen);
        if (nb > (1u << 20)) {                    /* very large columns: a digest instead of the bytes */
            uint64_t h = 1469598103934665603ull; const uint8_t* p = (const uint8_t*)vals;
            for (size_t i = 0; i < nb; i++) { h ^= p[i]; h *= 1099511628211ull; }
            printf("#%016llx.%zu", (unsigned long long)h, nb);
        } else vh_puthex(vals, nb);
    }
}

/* L:<path>:<tlen>:<rows>:<codec>  a large synthetic file: REQUIRED INT64 i, REQUIRED FIXED_LEN_BYTE_ARRAY(tlen) f,
 * one row group, written in batches of 1000 rows; value bytes are a function of the row number */
static void cmd_large_file(char* t) {
    int tlen = atoi(field(t, 2)); long rows = atol(field(t, 3)); int codec = atoi(field(t, 4));
    carquet_error_t err = CARQUET_ERROR_INIT;
    carquet_schema_t* sc = carquet_schema_create(&err);
    if (!sc) { fputs(" L=noschema", stdout); return; }
    if (carquet_schema_add_column(sc, "i", CARQUET_PHYSICAL_INT64, NULL, CARQUET_REPETITION_REQUIRED, 0) != CARQUET_OK ||
        carquet_schema_add_column(sc, "f", CARQUET_PHYSICAL_FIXED_LEN_BYTE_ARRAY, NULL, CARQUET_REPETITION_REQUIRED, tlen) != CARQUET_OK) {
        carquet_schema_free(sc); fputs(" L=schema-err", stdout); return;
    }
    carquet_writer_options_t opt; carquet_writer_options_init(&opt);
    opt.compression = (carquet_compression_t)codec;
    carquet_writer_t* w = carquet_writer_create(field(t, 1), sc, &opt, &err);
    if (!w) { carquet_schema_free(sc); printf(" L=err%d", (int)err.code); return; }
    enum { STEP = 1000 };
    int64_t* iv = (int64_t*)malloc(sizeof(int64_t) * STEP);
    uint8_t* fv = (uint8_t*)malloc((size_t)tlen * STEP);
    carquet_status_t st = CARQUET_OK;
    for (long base = 0; base < rows && st == CARQUET_OK; base += STEP) {
        long n = rows - base < STEP ? rows - base : STEP;
        for (long r = 0; r < n; r++) {
            iv[r] = (int64_t)(base + r) * 1000003;
            for (int j = 0; j < tlen; j++) fv[(size_t)r * tlen + j] = (uint8_t)((base + r) * 31 + j * 7 + ((base + r) >> 8));
        }
        st = carquet_writer_write_batch(w, 0, iv, n, NULL, NULL);
        if (st == CARQUET_OK) st = carquet_writer_write_batch(w, 1, fv, n, NULL, NULL);
    }
    free(iv); free(fv);
    if (st != CARQUET_OK) { carquet_writer_abort(w); carquet_schema_free(sc); printf(" L=write-err%d", (int)st); return; }
    st = carquet_writer_close(w);
    carquet_schema_free(sc);
    printf(" L=%d", (int)st);
}

/* -------------------------------------------------------------------------------- writer */
static void cmd_schema_col(char* t) {
    if (g_ncols >= MAXCOLS) { fputs(" S=toomany", stdout); return; }
    coldef_t* c = &g_cols[g_ncols];
    size_t n; uint8_t* nm = vh_unhex(field(t, 1), &n);
    if (n > 255) n = 255;
    memcpy(c->name, nm, n); c->name[n] = 0; free(nm);
    c->type = atoi(field(t, 2)); c->rep = atoi(field(t, 3)); c->tlen = atoi(field(t, 4));
    g_ncols++;
}

static int make_schema(void) {
    carquet_error_t err = CARQUET_ERROR_INIT;
    g_schema = carquet_schema_create(&err);
    if (!g_schema) return -1;
    for (int i = 0; i < g_ncols; i++) {
        carquet_status_t st = carquet_schema_add_column(g_schema, g_cols[i].name, (carquet_physical_type_t)g_cols[i].type,
            NULL, (carquet_field_repetition_t)g_cols[i].rep, g_cols[i].tlen);
        if (st != CARQUET_OK) return (int)st;
    }
    return 0;
}

static void cmd_writer_create(char* t) {
    int r = make_schema();
    if (r != 0) { printf(" W=schema-err%d", r); return; }
    carquet_writer_options_t opt; carquet_writer_options_init(&opt);
    opt.compression = (carquet_compression_t)atoi(field(t, 2));
    opt.page_size = atoll(field(t, 3));
    char* mode = field(t, 4);
    carquet_error_t err = CARQUET_ERROR_INIT;
    if (mode && mode[0] == 'f') {
        g_wfile = fopen(field(t, 1), "wb");
        if (!g_wfile) { fputs(" W=fopen-failed", stdout); return; }
        g_writer = carquet_writer_create_file(g_wfile, g_schema, &opt, &err);
    } else {
        g_writer = carquet_writer_create(field(t, 1), g_schema, &opt, &err);
    }
    if (g_writer) fputs(" W=ok", stdout); else printf(" W=err%d", (int)err.code);
}

static void cmd_write_batch(char* t) {
    if (!g_writer) { fputs(" B=nowriter", stdout); return; }
    int col = atoi(field(t, 1));
    int64_t nrows = atoll(field(t, 2));
    char* defs = field(t, 3);
    size_t vlen; uint8_t* raw = vh_unhex(field(t, 4), &vlen);
    int16_t* dl = NULL;
    int64_t nn = nrows;
    if (!(defs[0] == '-' && defs[1] == 0)) {
        dl = (int16_t*)malloc(sizeof(int16_t) * (size_t)(nrows ? nrows : 1));
        nn = 0;
        int maxdef = (col >= 0 && col < g_ncols && g_cols[col].rep == CARQUET_REPETITION_OPTIONAL) ? 1 : 0;
        for (int64_t i = 0; i < nrows; i++) { dl[i] = (int16_t)(defs[i] - '0'); if (dl[i] == maxdef) nn++; }
    }
    int type = (col >= 0 && col < g_ncols) ? g_cols[col].type : CARQUET_PHYSICAL_INT32;
    void* vals; carquet_byte_array_t* ba = NULL; uint8_t** owned = NULL;
    if (type == CARQUET_PHYSICAL_BYTE_ARRAY) {
        ba = (carquet_byte_array_t*)malloc(sizeof(carquet_byte_array_t) * (size_t)(nn ? nn : 1));
        owned = (uint8_t**)calloc((size_t)(nn ? nn : 1), sizeof(uint8_t*));
        size_t off = 0;
        for (int64_t i = 0; i < nn; i++) {
            uint32_t l; memcpy(&l, raw + off, 4); off += 4;
            owned[i] = (uint8_t*)malloc(l ? l : 1);           /* exact-size copy: over-reads hit ASan */
            memcpy(owned[i], raw + off, l); off += l;
            ba[i].data = owned[i]; ba[i].length = (int32_t)l;
        }
        vals = ba;
    } else {
        /* exact-size copy of the dense values (never NULL: the API requires a non-NULL pointer) */
        vals = malloc(vlen ? vlen : 1);
        memcpy(vals, raw, vlen);
    }
    carquet_status_t st = carquet_writer_write_batch(g_writer, col, vals, nrows, dl, NULL);
    printf(" B=%d", (int)st);
    if (ba) { for (int64_t i = 0; i < nn; i++) free(owned[i]); free(owned); free(ba); } else free(vals);
    free(dl); free(raw);
}

static void cmd_dump_file(char* t) {
    FILE* f = fopen(field(t, 1), "rb");
    if (!f) { fputs(" F=absent", stdout); return; }
    fseek(f, 0, SEEK_END); long n = ftell(f); fseek(f, 0, SEEK_SET);
    uint8_t* b = (uint8_t*)malloc(n > 0 ? (size_t)n : 1);
    if (n > 0 && fread(b, 1, (size_t)n, f) != (size_t)n) { fputs(" F=readerr", stdout); fclose(f); free(b); return; }
    fclose(f);
    fputs(" F=", stdout); vh_puthex(b, (size_t)n);
    free(b);
}

/* -------------------------------------------------------------------------------- reader */
static void cmd_open(char* t) {
    carquet_reader_options_t opt; carquet_reader_options_init(&opt);
    char* mode = field(t, 2);
    char* ver = field(t, 3);
    /* verify field: 0 / 1 explicit; 'd' = the documented defaults: NULL options where the mode allows it */
    int defaults = ver && ver[0] == 'd';
    if (ver && !defaults) opt.verify_checksums = atoi(ver) != 0;
    carquet_error_t err; memset(&err, 0x5a, sizeof(err)); err.code = CARQUET_OK;
    if (mode[0] == 'm') opt.use_mmap = true;
    if (mode[0] == 'b') {
        FILE* f = fopen(field(t, 1), "rb");
        if (!f) { fputs(" O=nofile", stdout); return; }
        fseek(f, 0, SEEK_END); long n = ftell(f); fseek(f, 0, SEEK_SET);
        g_filebuf = (uint8_t*)malloc(n > 0 ? (size_t)n : 1);
        if (n > 0 && fread(g_filebuf, 1, (size_t)n, f) != (size_t)n) { fclose(f); fputs(" O=readerr", stdout); return; }
        fclose(f);
        g_reader = carquet_reader_open_buffer(g_filebuf, (size_t)n, defaults ? NULL : &opt, &err);
    } else {
        g_reader = carquet_reader_open(field(t, 1), (defaults && mode[0] != 'm') ? NULL : &opt, &err);
    }
    if (g_reader) { fputs(" O=ok", stdout); return; }
    int nul = memchr(err.message, 0, sizeof(err.message)) != NULL;
    printf(" O=err:%d:%d", (int)err.code, nul);
}

static void cmd_meta(void) {
    if (!g_reader) { fputs(" M=noreader", stdout); return; }
    int32_t nrg = carquet_reader_num_row_groups(g_reader);
    int32_t ncol = carquet_reader_num_columns(g_reader);
    printf(" M=%lld:%d:%d:", (long long)carquet_reader_num_rows(g_reader), nrg, ncol);
    for (int i = 0; i < nrg && i < 4096; i++) {
        carquet_row_group_metadata_t md; memset(&md, 0, sizeof md);
        carquet_status_t st = carquet_reader_row_group_metadata(g_reader, i, &md);
        printf("%s%lld", i ? "," : "", st == CARQUET_OK ? (long long)md.num_rows : -1LL);
    }
    if (nrg == 0) fputc('-', stdout);
    const carquet_schema_t* s = carquet_reader_schema(g_reader);
    printf(":%d:%d", s ? carquet_schema_num_elements(s) : -1, s ? carquet_schema_num_columns(s) : -1);
    /* leaves as seen by column readers: name/type/rep/tlen via the schema's leaf index table */
    if (s) {
        for (int i = 0; i < s->num_leaves && i < MAXCOLS; i++) {
            const carquet_schema_node_t* nd = carquet_schema_get_element(s, s->leaf_indices[i]);
            const char* nm = nd ? carquet_schema_node_name(nd) : NULL;
            fputc(':', stdout);
            if (nm) vh_puthex(nm, strlen(nm)); else fputc('?', stdout);
            printf(",%d,%d,%d,%d,%d", nd ? (int)carquet_schema_node_physical_type(nd) : -1,
                   nd ? (int)carquet_schema_node_repetition(nd) : -1, nd ? (int)carquet_schema_node_type_length(nd) : -1,
                   (int)s->max_def_levels[i], (int)s->max_rep_levels[i]);
        }
    }
}

/* H: dump a schema through the public accessors only (reader's schema, or the builder's if no reader):
 *   H=<num_elements>:<num_columns>:<e0>:<e1>...;  e = namehex,is_leaf,type,rep,tlen,node_def,node_rep
 *   then ";" and for every leaf column index i: find_column(name of leaf i) */
static void cmd_schema_dump(void) {
    const carquet_schema_t* s = g_reader ? carquet_reader_schema(g_reader) : g_schema;
    if (!s && g_ncols > 0 && !g_reader) { if (make_schema() == 0) s = g_schema; }
    if (!s) { fputs(" H=noschema", stdout); return; }
    int32_t ne = carquet_schema_num_elements(s), nc = carquet_schema_num_columns(s);
    printf(" H=%d:%d", ne, nc);
    for (int32_t i = 0; i < ne; i++) {
        const carquet_schema_node_t* nd = carquet_schema_get_element(s, i);
        fputc(':', stdout);
        if (!nd) { fputs("null", stdout); continue; }
        const char* nm = carquet_schema_node_name(nd);
        if (nm) vh_puthex(nm, strlen(nm)); else fputc('?', stdout);
        printf(",%d,%d,%d,%d,%d,%d", (int)carquet_schema_node_is_leaf(nd), (int)carquet_schema_node_physical_type(nd),
               (int)carquet_schema_node_repetition(nd), (int)carquet_schema_node_type_length(nd),
               (int)carquet_schema_node_max_def_level(nd), (int)carquet_schema_node_max_rep_level(nd));
        /* logical type as exposed by the accessor: id/p1/p2 (parameters of the kinds that have them), x = none */
        const carquet_logical_type_t* lt = carquet_schema_node_logical_type(nd);
        if (!lt) fputs(",x", stdout);
        else {
            int p1 = 0, p2 = 0;
            switch (lt->id) {
                case CARQUET_LOGICAL_DECIMAL: p1 = lt->params.decimal.scale; p2 = lt->params.decimal.precision; break;
                case CARQUET_LOGICAL_INTEGER: p1 = lt->params.integer.bit_width; p2 = lt->params.integer.is_signed; break;
                case CARQUET_LOGICAL_TIME: p1 = (int)lt->params.time.unit; p2 = lt->params.time.is_adjusted_to_utc; break;
                case CARQUET_LOGICAL_TIMESTAMP: p1 = (int)lt->params.timestamp.unit; p2 = lt->params.timestamp.is_adjusted_to_utc; break;
                default: break;
            }
            printf(",%d/%d/%d", (int)lt->id, p1, p2);
        }
    }
    fputc(';', stdout);
    /* column lookup by name: for each element that is a leaf, in order */
    int first = 1;
    for (int32_t i = 0; i < ne; i++) {
        const carquet_schema_node_t* nd = carquet_schema_get_element(s, i);
        if (!nd || !carquet_schema_node_is_leaf(nd)) continue;
        const char* nm = carquet_schema_node_name(nd);
        printf("%s%d", first ? "" : ",", nm ? carquet_schema_find_column(s, nm) : -2);
        first = 0;
    }
    if (first) fputc('-', stdout);
    printf(";%d;%d", (int)(carquet_schema_get_element(s, ne) == NULL), (int)(carquet_schema_get_element(s, -1) == NULL));
    /* names that are NOT column names: a proper prefix of the last leaf's name, that name plus one character, and a foreign name */
    {
        const char* lastname = NULL;
        for (int32_t i = 0; i < ne; i++) {
            const carquet_schema_node_t* nd = carquet_schema_get_element(s, i);
            if (nd && carquet_schema_node_is_leaf(nd) && carquet_schema_node_name(nd)) lastname = carquet_schema_node_name(nd);
        }
        int r1 = -9, r2 = -9, r3 = carquet_schema_find_column(s, "zz-no-such-column");
        if (lastname) {
            size_t L = strlen(lastname);
            char* a = (char*)malloc(L + 2);
            memcpy(a, lastname, L + 1); a[L] = 'q'; a[L + 1] = 0; r2 = carquet_schema_find_column(s, a);
            if (L > 1) { a[L - 1] = 0; r1 = carquet_schema_find_column(s, a); }
            free(a);
        }
        printf(";%d,%d,%d", r1, r2, r3);
    }
    /* the per-leaf level tables the writer and the column readers work from (not behind any accessor) */
    fputc(';', stdout);
    for (int32_t i = 0; i < nc && i < MAXCOLS; i++)
        printf("%s%d/%d/%d", i ? "," : "", (int)s->max_def_levels[i], (int)s->max_rep_levels[i], (int)s->leaf_indices[i]);
    if (nc == 0) fputc('-', stdout);
}

/* E:<rg>:<col>  statistics / pruning calls (memory-safety exerciser; results printed compactly) */
static void cmd_stats(char* t) {
    if (!g_reader) { fputs(" E=noreader", stdout); return; }
    int rg = atoi(field(t, 1)), col = atoi(field(t, 2));
    carquet_column_statistics_t st; memset(&st, 0, sizeof st);
    carquet_status_t s1 = carquet_reader_column_statistics(g_reader, rg, col, &st);
    size_t touched = 0;
    if (s1 == CARQUET_OK && st.has_min_max) {
        /* touch every byte the library says it returned */
        const uint8_t* a = (const uint8_t*)st.min_value; const uint8_t* b = (const uint8_t*)st.max_value;
        for (int32_t i = 0; i < st.min_value_size; i++) touched += a[i];
        for (int32_t i = 0; i < st.max_value_size; i++) touched += b[i];
    }
    uint8_t* probe = (uint8_t*)calloc(1, 16);      /* exact-size probe buffers per call below */
    bool might = true; int32_t idx[4];
    carquet_status_t s2 = CARQUET_OK; int32_t nf = 0;
    for (int op = 0; op < 6; op++) {
        uint8_t* p8 = (uint8_t*)malloc(8); memcpy(p8, probe, 8);
        s2 = carquet_reader_row_group_matches(g_reader, rg, col, (carquet_compare_op_t)op, p8, 8, &might);
        nf = carquet_reader_filter_row_groups(g_reader, col, (carquet_compare_op_t)op, p8, 8, idx, 4);
        free(p8);
    }
    free(probe);
    printf(" E=%d:%d:%d:%d", (int)s1, (int)s2, (int)nf, (int)(touched & 1));
}

static void cmd_get_column(char* t) {
    if (!g_reader) { fputs(" K=noreader", stdout); return; }
    recheck_last();
    if (g_col) { carquet_column_reader_free(g_col); g_col = NULL; }
    carquet_error_t err; memset(&err, 0x5a, sizeof(err)); err.code = CARQUET_OK;
    g_col = carquet_reader_get_column(g_reader, atoi(field(t, 1)), atoi(field(t, 2)), &err);
    if (!g_col) { printf(" K=err:%d:%d", (int)err.code, memchr(err.message, 0, sizeof(err.message)) != NULL); return; }
    g_col_type = g_col->type; g_col_tlen = g_col->type_length; g_col_maxdef = g_col->max_def_level;
    printf(" K=ok:%d:%d:%d:%d", g_col_type, g_col_tlen, g_col_maxdef, (int)g_col->max_rep_level);
}

static void cmd_read(char* t) {
    if (!g_col) { fputs(" R=nocol", stdout); return; }
    recheck_last();
    int64_t k = atoll(field(t, 1));
    char* nl = field(t, 2);
    int nolevels = nl && nl[0] == '1';
    size_t vs = value_size(g_col_type, g_col_tlen);
    int64_t kk = k > 0 ? k : 0;
    void* vals = malloc(vs * (size_t)kk + (kk == 0));           /* exact size */
    int16_t* defs = nolevels ? NULL : (int16_t*)malloc(sizeof(int16_t) * (size_t)kk + (kk == 0));
    int16_t* reps = nolevels ? NULL : (int16_t*)malloc(sizeof(int16_t) * (size_t)kk + (kk == 0));
    int64_t n = carquet_column_read_batch(g_col, vals, k, defs, reps);
    printf(" R=%lld:", (long long)n);
    int64_t nn = n > 0 ? n : 0;
    if (n > 0 && defs) {
        nn = 0;
        for (int64_t i = 0; i < n; i++) { fputc('0' + (defs[i] & 15), stdout); if (defs[i] == g_col_maxdef) nn++; }
        fputc(':', stdout);
        for (int64_t i = 0; i < n; i++) fputc('0' + (reps[i] & 15), stdout);
    } else fputs("-:-", stdout);
    fputc(':', stdout);
    if (n > 0 && (defs || g_col_maxdef == 0)) dump_values(vals, g_col_type, g_col_tlen, nn); else fputc('-', stdout);
    printf(":%lld:%d", (long long)carquet_column_remaining(g_col), (int)carquet_column_has_next(g_col));
    if (g_col_type == CARQUET_PHYSICAL_BYTE_ARRAY && n > 0 && (defs || g_col_maxdef == 0) && ba_sane((carquet_byte_array_t*)vals, nn)) {
        /* keep pointers + snapshot, to be re-read right before the next call on this column */
        g_last_ba = (carquet_byte_array_t*)malloc(sizeof(carquet_byte_array_t) * (size_t)(nn ? nn : 1));
        memcpy(g_last_ba, vals, sizeof(carquet_byte_array_t) * (size_t)nn);
        g_last_ba_n = nn;
        size_t tot = 0; for (int64_t i = 0; i < nn; i++) tot += (size_t)g_last_ba[i].length;
        g_last_snapshot = (uint8_t*)malloc(tot ? tot : 1); g_last_snapshot_len = tot;
        size_t off = 0; for (int64_t i = 0; i < nn; i++) { if (g_last_ba[i].length > 0) memcpy(g_last_snapshot + off, g_last_ba[i].data, (size_t)g_last_ba[i].length); off += (size_t)g_last_ba[i].length; }
    }
    free(vals); free(defs); free(reps);
}

/* drain: read_batch(k) repeatedly until it returns <= 0 or nothing remains; report everything delivered */
static void cmd_drain(char* t) {
    if (!g_col) { fputs(" D=nocol", stdout); return; }
    recheck_last();
    int64_t k = atoll(field(t, 1));
    if (k < 1) k = 1;
    size_t vs = value_size(g_col_type, g_col_tlen);
    int64_t delivered = 0; int err = 0, calls = 0;
    size_t dcap = 256, dlen = 0; char* defs = (char*)malloc(dcap); char* repsb = (char*)malloc(dcap);
    printf(" D=");
    /* values are printed call by call (dense per call) after the header fields, so buffer them */
    size_t ocap = 1 << 12, olen = 0; char* out = (char*)malloc(ocap);
    FILE* real = stdout; (void)real;
    while (calls < 100000) {
        void* vals = malloc(vs * (size_t)k);
        int16_t* dl = (int16_t*)malloc(sizeof(int16_t) * (size_t)k);
        int16_t* rl = (int16_t*)malloc(sizeof(int16_t) * (size_t)k);
        int64_t n = carquet_column_read_batch(g_col, vals, k, dl, rl);
        calls++;
        if (n < 0) { err = 1; free(vals); free(dl); free(rl); break; }
        if (n == 0) { free(vals); free(dl); free(rl); break; }
        int64_t nn = 0;
        for (int64_t i = 0; i < n; i++) {
            if (dlen + 2 > dcap) { dcap *= 2; defs = (char*)realloc(defs, dcap); repsb = (char*)realloc(repsb, dcap); }
            repsb[dlen] = (char)('0' + (rl[i] & 15));
            defs[dlen++] = (char)('0' + (dl[i] & 15));
            if (dl[i] == g_col_maxdef) nn++;
        }
        /* serialise the nn dense values into `out` as hex via a memstream */
        char* mbuf = NULL; size_t mlen = 0; FILE* ms = open_memstream(&mbuf, &mlen);
        FILE* saved = stdout; stdout = ms; dump_values(vals, g_col_type, g_col_tlen, nn); fflush(ms); stdout = saved; fclose(ms);
        if (!(mlen == 1 && mbuf[0] == '-')) {
            if (olen + mlen + 1 > ocap) { while (olen + mlen + 1 > ocap) ocap *= 2; out = (char*)realloc(out, ocap); }
            memcpy(out + olen, mbuf, mlen); olen += mlen;
        }
        free(mbuf);
        delivered += n;
        free(vals); free(dl); free(rl);
        if (carquet_column_remaining(g_col) <= 0) break;
    }
    defs[dlen] = 0; repsb[dlen] = 0; out[olen] = 0;
    printf("%lld:%d:%s:%s:%d:%lld:%s", (long long)delivered, err, dlen ? defs : "-", olen ? out : "-", calls,
           (long long)carquet_column_remaining(g_col), dlen ? repsb : "-");
    free(defs); free(repsb); free(out);
}

/* J:<dst>:<src>:<pos>:<xormaskhex>  copy src to dst with bytes XORed from pos */
static void cmd_damage(char* t) {
    FILE* f = fopen(field(t, 2), "rb");
    if (!f) { fputs(" J=nosrc", stdout); return; }
    fseek(f, 0, SEEK_END); long n = ftell(f); fseek(f, 0, SEEK_SET);
    uint8_t* b = (uint8_t*)malloc(n > 0 ? (size_t)n : 1);
    if (n > 0 && fread(b, 1, (size_t)n, f) != (size_t)n) { fclose(f); free(b); fputs(" J=readerr", stdout); return; }
    fclose(f);
    long pos = atol(field(t, 3));
    size_t ml; uint8_t* m = vh_unhex(field(t, 4), &ml);
    for (size_t i = 0; i < ml; i++) if (pos + (long)i >= 0 && pos + (long)i < n) b[pos + (long)i] ^= m[i];
    free(m);
    f = fopen(field(t, 1), "wb");
    if (!f) { free(b); fputs(" J=nodst", stdout); return; }
    fwrite(b, 1, (size_t)n, f); fclose(f); free(b);
    fputs(" J=ok", stdout);
}

static void cmd_skip(char* t) {
    if (!g_col) { fputs(" P=nocol", stdout); return; }
    recheck_last();
    int64_t n = carquet_column_skip(g_col, atoll(field(t, 1)));
    printf(" P=%lld:%lld:%d", (long long)n, (long long)carquet_column_remaining(g_col), (int)carquet_column_has_next(g_col));
}

/* serialise one kept batch into a malloc'd snapshot string (also what is printed) */
static size_t batch_bytes(carquet_row_batch_t* b, uint8_t** out) {
    size_t cap = 1 << 16, len = 0; uint8_t* o = (uint8_t*)malloc(cap);
    int32_t nc = carquet_row_batch_num_columns(b);
    for (int32_t c = 0; c < nc; c++) {
        const void* data = NULL; const uint8_t* bm = NULL; int64_t nv = 0;
        if (carquet_row_batch_column(b, c, &data, &bm, &nv) != CARQUET_OK) continue;
        int fc = (c < g_nproj) ? g_proj[c] : c;
        const carquet_schema_t* s = carquet_reader_schema(g_reader);
        const carquet_schema_node_t* nd = carquet_schema_get_element(s, s->leaf_indices[fc]);
        int type = (int)carquet_schema_node_physical_type(nd), tlen = carquet_schema_node_type_length(nd);
        int64_t nn = nv;
        if (bm) { nn = 0; for (int64_t i = 0; i < nv; i++) if (!((bm[i / 8] >> (i % 8)) & 1)) nn++; }
        if (type == CARQUET_PHYSICAL_BYTE_ARRAY) {
            const carquet_byte_array_t* a = (const carquet_byte_array_t*)data;
            if (!ba_sane(a, nn)) continue;
            for (int64_t i = 0; i < nn; i++) {
                size_t need = 4 + (size_t)(a[i].length > 0 ? a[i].length : 0);
                if (len + need > cap) { while (len + need > cap) cap *= 2; o = (uint8_t*)realloc(o, cap); }
                memcpy(o + len, &a[i].length, 4); len += 4;
                if (a[i].length > 0) { memcpy(o + len, a[i].data, (size_t)a[i].length); len += (size_t)a[i].length; }
            }
        } else {
            size_t need = (size_t)nn * value_size(type, tlen);
            if (len + need > cap) { while (len + need > cap) cap *= 2; o = (uint8_t*)realloc(o, cap); }
            if (need) memcpy(o + len, data, need);
            len += need;
        }
    }
    *out = o; return len;
}

static void cmd_batch_create(char* t) {
    if (!g_reader) { fputs(" T=noreader", stdout); return; }
    carquet_batch_reader_config_t cfg; carquet_batch_reader_config_init(&cfg);
    cfg.batch_size = atoll(field(t, 1));
    cfg.num_threads = atoi(field(t, 2));
    int byname = atoi(field(t, 3));
    char* pl = field(t, 4);
    static int32_t idx[MAXCOLS]; static const char* names[MAXCOLS]; static char namebuf[MAXCOLS][256];
    g_nproj = 0;
    int32_t ncol = carquet_reader_num_columns(g_reader);
    if (pl && !(pl[0] == '-' && pl[1] == 0)) {
        char* p = pl;
        while (*p && g_nproj < MAXCOLS) { g_proj[g_nproj++] = (int)strtol(p, &p, 10); if (*p == ',') p++; }
        const carquet_schema_t* s = carquet_reader_schema(g_reader);
        for (int i = 0; i < g_nproj; i++) {
            idx[i] = g_proj[i];
            const carquet_schema_node_t* nd = (g_proj[i] >= 0 && g_proj[i] < s->num_leaves) ? carquet_schema_get_element(s, s->leaf_indices[g_proj[i]]) : NULL;
            snprintf(namebuf[i], sizeof namebuf[i], "%s", nd ? carquet_schema_node_name(nd) : "no-such-column");
            names[i] = namebuf[i];
        }
        if (byname) { cfg.column_names = names; cfg.num_column_names = g_nproj; }
        else { cfg.column_indices = idx; cfg.num_columns = g_nproj; }
    } else { for (int i = 0; i < ncol && i < MAXCOLS; i++) g_proj[g_nproj++] = i; }
    carquet_error_t err; memset(&err, 0x5a, sizeof(err)); err.code = CARQUET_OK;
    g_br = carquet_batch_reader_create(g_reader, &cfg, &err);
    if (g_br) fputs(" T=ok", stdout); else printf(" T=err:%d:%d", (int)err.code, memchr(err.message, 0, sizeof(err.message)) != NULL);
}

static void cmd_batch_next(void) {
    if (!g_br) { fputs(" N=nobr", stdout); return; }
    carquet_row_batch_t* b = NULL;
    carquet_status_t st = carquet_batch_reader_next(g_br, &b);
    printf(" N=%d", (int)st);
    if (st != CARQUET_OK || !b) return;
    int32_t nc = carquet_row_batch_num_columns(b);
    printf(":%lld:%d", (long long)carquet_row_batch_num_rows(b), nc);
    for (int32_t c = 0; c < nc; c++) {
        const void* data = NULL; const uint8_t* bm = NULL; int64_t nv = 0;
        carquet_status_t cs = carquet_row_batch_column(b, c, &data, &bm, &nv);
        if (cs != CARQUET_OK) { printf(":err%d", (int)cs); continue; }
        int fc = (c < g_nproj) ? g_proj[c] : c;
        const carquet_schema_t* s = carquet_reader_schema(g_reader);
        const carquet_schema_node_t* nd = carquet_schema_get_element(s, s->leaf_indices[fc]);
        int type = (int)carquet_schema_node_physical_type(nd), tlen = carquet_schema_node_type_length(nd);
        printf(":%lld,", (long long)nv);
        int64_t nn = nv;
        if (bm) { nn = 0; for (int64_t i = 0; i < nv; i++) { int isnull = (bm[i / 8] >> (i % 8)) & 1; fputc(isnull ? '1' : '0', stdout); if (!isnull) nn++; } if (nv == 0) fputc('-', stdout); }
        else fputc('x', stdout);
        fputc(',', stdout);
        dump_values(data, type, tlen, nn);
    }
    if (g_nkept < MAXKEPT) { g_kept[g_nkept].b = b; g_kept[g_nkept].snaplen = batch_bytes(b, &g_kept[g_nkept].snap); g_nkept++; }
    else carquet_row_batch_free(b);
}

static void cmd_verify_kept(void) {
    /* re-read every kept batch's data (fixed-width columns and byte arrays) and compare with the
     * snapshot taken at delivery; ASan / SIGSEGV observe invalidated memory */
    int bad = 0;
    for (int i = 0; i < g_nkept; i++) {
        uint8_t* now; size_t n = batch_bytes(g_kept[i].b, &now);
        if (n != g_kept[i].snaplen || memcmp(now, g_kept[i].snap, n) != 0) bad++;
        free(now);
    }
    printf(" V=%d:%d", g_nkept, bad);
}

static void free_kept(void) {
    for (int i = 0; i < g_nkept; i++) { carquet_row_batch_free(g_kept[i].b); free(g_kept[i].snap); }
    g_nkept = 0;
}

static void reset_all(void) {
    recheck_last();
    free_kept();
    if (g_br) { carquet_batch_reader_free(g_br); g_br = NULL; }
    if (g_col) { carquet_column_reader_free(g_col); g_col = NULL; }
    if (g_reader) { carquet_reader_close(g_reader); g_reader = NULL; }
    free(g_filebuf); g_filebuf = NULL;
    if (g_writer) { carquet_writer_abort(g_writer); g_writer = NULL; }
    if (g_wfile) { fclose(g_wfile); g_wfile = NULL; }
    if (g_schema) { carquet_schema_free(g_schema); g_schema = NULL; }
    g_ncols = 0; g_nproj = 0;
}

int main(void) {
    vh_case_t c = {0};
    if (carquet_init() != CARQUET_OK) return 3;
    while (vh_next(&c)) {
        if (c.n < 1) continue;
        vh_begin(&c);
        fputs(c.tok[0], stdout);
        for (int i = 1; i < c.n; i++) {
            char* t = c.tok[i];
            switch (t[0]) {
                case 'S': cmd_schema_col(t); break;
                case 'W': cmd_writer_create(t); break;
                case 'B': cmd_write_batch(t); break;
                case 'G': if (g_writer) printf(" G=%d", (int)carquet_writer_new_row_group(g_writer)); else fputs(" G=nowriter", stdout); break;
                case 'C': if (g_writer) { carquet_status_t st = carquet_writer_close(g_writer); g_writer = NULL; if (g_wfile) { int fr = fclose(g_wfile); g_wfile = NULL; printf(" C=%d:%d", (int)st, fr); } else printf(" C=%d", (int)st); } else fputs(" C=nowriter", stdout); break;
                case 'A': if (g_writer) { carquet_writer_abort(g_writer); g_writer = NULL; fputs(" A=ok", stdout); } else fputs(" A=nowriter", stdout); break;
                case 'F': cmd_dump_file(t); break;
                case 'O': cmd_open(t); break;
                case 'M': cmd_meta(); break;
                case 'K': cmd_get_column(t); break;
                case 'H': cmd_schema_dump(); break;
                case 'E': cmd_stats(t); break;
                case 'R': cmd_read(t); break;
                case 'P': cmd_skip(t); break;
                case 'D': cmd_drain(t); break;
                case 'J': cmd_damage(t); break;
                case 'L': cmd_large_file(t); break;
                case 'Q': if (g_col) printf(" Q=%d:%lld", (int)carquet_column_has_next(g_col), (long long)carquet_column_remaining(g_col)); else fputs(" Q=nocol", stdout); break;
                case 'X': recheck_last(); if (g_col) { carquet_column_reader_free(g_col); g_col = NULL; } fputs(" X=ok", stdout); break;
                case 'T': cmd_batch_create(t); break;
                case 'N': cmd_batch_next(); break;
                case 'V': cmd_verify_kept(); break;
                case 'Y': if (g_br) { carquet_batch_reader_free(g_br); g_br = NULL; } fputs(" Y=ok", stdout); break;
                case 'U': free_kept(); fputs(" U=ok", stdout); break;
                case 'Z': recheck_last(); if (g_col) { carquet_column_reader_free(g_col); g_col = NULL; } if (g_br) { carquet_batch_reader_free(g_br); g_br = NULL; } if (g_reader) { carquet_reader_close(g_reader); g_reader = NULL; } free(g_filebuf); g_filebuf = NULL; fputs(" Z=ok", stdout); break;
                default: printf(" ?=%c", t[0]);
            }
        }
        reset_all();
        vh_end();
    }
    vh_finish(&c);
    return 0;
}
