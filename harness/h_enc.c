/* h_enc.c - replayer / recorder for carquet's encodings (C11, C12, encodings part of C08).
 *
 * One case per line: "<id> <op> <args...>". Dumb by design: copies bytes/values into exact-size
 * heap buffers, calls the encoder/decoder entry points, prints what came back. No judgement.
 *
 * Value tokens:  CSV  = comma separated unsigned decimals, "-" = empty list
 *                HEX  = lowercase hex, "-" = empty
 *                STRS = comma separated hex strings, "_" = empty string, "-" = empty list
 * Every result starts with the case id; fields are separated by single spaces.
 *
 *  rle_rt  bw CSV              -> est HEX n CSV                (encode_all ; decode_all max=n)
 *  rle_ops bw op...            -> est HEX                      (P<v> put, R<v>:<c> put_repeat, F flush)
 *  lvl_rt  bw CSV              -> est HEX n CSV pn pcons CSV   (encode_levels; decode_levels; prefixed(+3 junk bytes))
 *  rle_dec bw max HEX          -> n CSV                        (decode_all)
 *  lvl_dec bw max HEX          -> n CSV                        (decode_levels)
 *  lvlp_dec bw max HEX         -> n cons CSV                   (decode_levels_prefixed)
 *  rle_hist bw HEX op...       -> res... st<status>            (G get, B<k> get_batch, S<k> skip, H has_next)
 *  bp_rt   bw CSV              -> wr HEX rd CSV                (bitpack_32 ; bitunpack_32)
 *  bp8_rt  bw CSV(8)           -> HEX CSV                      (bitpack8_32 ; bitunpack8_32)
 *  bp_unp  bw count HEX        -> rd CSV                       (bitunpack_32, input exactly as given)
 *  bw_rt   w:v,w:v,...         -> nbytes HEX CSV               (bit_writer write_bits/_bits64, flush ; bit_reader)
 *  br_rd   HEX w,w,...         -> CSV                          (bit_reader only)
 *  plain_rt  type tlen n P     -> est HEX ret P'               (P = HEX payload of fixed-size values | STRS for type 6)
 *  plain_dec type tlen count HEX -> ret P'
 *  d32_rt n HEX / d64_rt n HEX -> est written HEX dst cons HEX
 *  d32_dec count HEX / d64_dec -> dst cons HEX
 *  dl_rt STRS / ds_rt STRS     -> est HEX dst cons STRS
 *  dl_dec count HEX            -> dst cons STRS
 *  ds_dec count workcap HEX    -> dst cons STRS
 *  bss_rt kind width count HEX -> est written HEX dst HEX      (kind f|d|g)
 *  bss_dec kind width count HEX-> dst HEX
 *  dict_rt type P              -> est HEX(dict) HEX(indices) dst HEX     (type 1,2,4,5 ; 6 = byte array: encode only)
 *  dict_dec type dcount HEX HEX outcount -> dst HEX
 */
#include "vh.h"
#include <carquet/carquet.h>
#include "core/buffer.h"
#include "core/bitpack.h"
#include "encoding/rle.h"
#include "encoding/plain.h"

carquet_status_t carquet_delta_encode_int32(const int32_t*, int32_t, uint8_t*, size_t, size_t*);
carquet_status_t carquet_delta_decode_int32(const uint8_t*, size_t, int32_t*, int32_t, size_t*);
carquet_status_t carquet_delta_encode_int64(const int64_t*, int32_t, uint8_t*, size_t, size_t*);
carquet_status_t carquet_delta_decode_int64(const uint8_t*, size_t, int64_t*, int32_t, size_t*);
carquet_status_t carquet_delta_length_decode(const uint8_t*, size_t, carquet_byte_array_t*, int32_t, size_t*);
carquet_status_t carquet_delta_length_encode(const carquet_byte_array_t*, int32_t, carquet_buffer_t*);
carquet_status_t carquet_delta_strings_decode(const uint8_t*, size_t, carquet_byte_array_t*, int32_t, uint8_t*, size_t, size_t*);
carquet_status_t carquet_delta_strings_encode(const carquet_byte_array_t*, int32_t, carquet_buffer_t*);
carquet_status_t carquet_byte_stream_split_encode_float(const float*, int64_t, uint8_t*, size_t, size_t*);
carquet_status_t carquet_byte_stream_split_decode_float(const uint8_t*, size_t, float*, int64_t);
carquet_status_t carquet_byte_stream_split_encode_double(const double*, int64_t, uint8_t*, size_t, size_t*);
carquet_status_t carquet_byte_stream_split_decode_double(const uint8_t*, size_t, double*, int64_t);
carquet_status_t carquet_byte_stream_split_encode(const uint8_t*, int64_t, int32_t, uint8_t*, size_t, size_t*);
carquet_status_t carquet_byte_stream_split_decode(const uint8_t*, size_t, int32_t, uint8_t*, int64_t);
carquet_status_t carquet_dictionary_encode_int32(const int32_t*, int64_t, carquet_buffer_t*, carquet_buffer_t*);
carquet_status_t carquet_dictionary_decode_int32(const uint8_t*, size_t, int32_t, const uint8_t*, size_t, int32_t*, int64_t);
carquet_status_t carquet_dictionary_encode_int64(const int64_t*, int64_t, carquet_buffer_t*, carquet_buffer_t*);
carquet_status_t carquet_dictionary_decode_int64(const uint8_t*, size_t, int32_t, const uint8_t*, size_t, int64_t*, int64_t);
carquet_status_t carquet_dictionary_encode_float(const float*, int64_t, carquet_buffer_t*, carquet_buffer_t*);
carquet_status_t carquet_dictionary_decode_float(const uint8_t*, size_t, int32_t, const uint8_t*, size_t, float*, int64_t);
carquet_status_t carquet_dictionary_encode_double(const double*, int64_t, carquet_buffer_t*, carquet_buffer_t*);
carquet_status_t carquet_dictionary_decode_double(const uint8_t*, size_t, int32_t, const uint8_t*, size_t, double*, int64_t);
carquet_status_t carquet_dictionary_encode_byte_array(const carquet_byte_array_t*, int64_t, carquet_buffer_t*, carquet_buffer_t*);

/* ---------- exact-size inputs ---------- */
typedef struct { uint8_t* base; uint8_t* p; size_t n; } xin_t;
/* exact bounds: for n = 0 the pointer is one-past a 1-byte block, so any access is out of bounds */
static xin_t xin_hex(const char* s) {
    xin_t x; x.base = vh_unhex(s, &x.n); x.p = x.n ? x.base : x.base + 1; return x;
}
static void* xalloc(size_t n, uint8_t** base) {
    *base = (uint8_t*)malloc(n ? n : 1);
    if (!*base) { fprintf(stderr, "harness: alloc %zu failed\n", n); exit(3); }
    memset(*base, 0xA5, n ? n : 1);
    return n ? *base : *base + 1;
}

static size_t csv_count(const char* s) {
    if (s[0] == '-' && !s[1]) return 0;
    size_t n = 1; for (const char* p = s; *p; p++) if (*p == ',') n++;
    return n;
}
/* parse CSV of unsigned into exact-size u64 array */
static uint64_t* csv_u64(const char* s, size_t* n, uint8_t** base) {
    *n = csv_count(s);
    uint64_t* v = (uint64_t*)xalloc(*n * 8, base);
    const char* p = s;
    for (size_t i = 0; i < *n; i++) { char* e; v[i] = strtoull(p, &e, 10); p = e + 1; }
    return v;
}
static void put_csv32(const uint32_t* v, int64_t n) {
    if (n <= 0) { fputc('-', stdout); return; }
    for (int64_t i = 0; i < n; i++) printf(i ? ",%u" : "%u", v[i]);
}
static void put_csv16(const int16_t* v, int64_t n) {
    if (n <= 0) { fputc('-', stdout); return; }
    for (int64_t i = 0; i < n; i++) printf(i ? ",%d" : "%d", (int)v[i]);
}
static void put_hex_or_dash(const void* p, size_t n) { vh_puthex(p, n); }

/* STRS -> byte arrays, each string in its own exact-size allocation */
typedef struct { carquet_byte_array_t* a; uint8_t* abase; uint8_t** blocks; size_t n; } strs_t;
static strs_t strs_parse(const char* s) {
    strs_t r; r.n = csv_count(s);
    r.a = (carquet_byte_array_t*)xalloc(r.n * sizeof(carquet_byte_array_t), &r.abase);
    r.blocks = (uint8_t**)calloc(r.n ? r.n : 1, sizeof(uint8_t*));
    const char* p = s;
    for (size_t i = 0; i < r.n; i++) {
        const char* q = strchr(p, ','); size_t l = q ? (size_t)(q - p) : strlen(p);
        if (l == 1 && p[0] == '_') { r.blocks[i] = (uint8_t*)malloc(1); r.a[i].data = r.blocks[i] + 1; r.a[i].length = 0; }
        else {
            size_t nb = l / 2; r.blocks[i] = (uint8_t*)malloc(nb ? nb : 1);
            for (size_t k = 0; k < nb; k++) r.blocks[i][k] = (uint8_t)((vh_hexval(p[2*k]) << 4) | vh_hexval(p[2*k+1]));
            r.a[i].data = r.blocks[i]; r.a[i].length = (int32_t)nb;
        }
        p = q ? q + 1 : p + l;
    }
    return r;
}
static void strs_free(strs_t* r) { for (size_t i = 0; i < r->n; i++) free(r->blocks[i]); free(r->blocks); free(r->abase); }
static void put_strs(const carquet_byte_array_t* a, int64_t n) {
    if (n <= 0) { fputc('-', stdout); return; }
    for (int64_t i = 0; i < n; i++) {
        if (i) fputc(',', stdout);
        if (a[i].length <= 0) fputc('_', stdout); else vh_puthex(a[i].data, (size_t)a[i].length);
    }
}

/* ---------- RLE hybrid ---------- */
static void do_rle_rt(vh_case_t* c, int levels) {
    int bw = atoi(c->tok[2]); size_t n; uint8_t* vb; uint64_t* v = csv_u64(c->tok[3], &n, &vb);
    carquet_buffer_t buf; carquet_buffer_init(&buf);
    carquet_status_t st;
    uint8_t* ib;
    if (!levels) {
        uint32_t* in = (uint32_t*)xalloc(n * 4, &ib);
        for (size_t i = 0; i < n; i++) in[i] = (uint32_t)v[i];
        st = carquet_rle_encode_all(in, (int64_t)n, bw, &buf);
    } else {
        int16_t* in = (int16_t*)xalloc(n * 2, &ib);
        for (size_t i = 0; i < n; i++) in[i] = (int16_t)v[i];
        st = carquet_rle_encode_levels(in, (int64_t)n, bw, &buf);
    }
    printf("%s %d ", c->tok[0], (int)st); put_hex_or_dash(buf.data, buf.size);
    /* decode from an exact-size copy of the produced bytes */
    uint8_t* eb; uint8_t* enc = (uint8_t*)xalloc(buf.size, &eb); if (buf.size) memcpy(enc, buf.data, buf.size);
    uint8_t* ob;
    if (!levels) {
        uint32_t* out = (uint32_t*)xalloc(n * 4, &ob);
        int64_t d = carquet_rle_decode_all(enc, buf.size, bw, out, (int64_t)n);
        printf(" %lld ", (long long)d); put_csv32(out, d < (int64_t)n ? d : (int64_t)n);
    } else {
        int16_t* out = (int16_t*)xalloc(n * 2, &ob);
        int64_t d = carquet_rle_decode_levels(enc, buf.size, bw, out, (int64_t)n);
        printf(" %lld ", (long long)d); put_csv16(out, d < (int64_t)n ? d : (int64_t)n);
        /* prefixed form: [len LE32][stream][3 junk bytes] */
        size_t pl = 4 + buf.size + 3; uint8_t* pb; uint8_t* pre = (uint8_t*)xalloc(pl, &pb);
        pre[0] = (uint8_t)buf.size; pre[1] = (uint8_t)(buf.size >> 8); pre[2] = (uint8_t)(buf.size >> 16); pre[3] = (uint8_t)(buf.size >> 24);
        if (buf.size) memcpy(pre + 4, buf.data, buf.size);
        pre[pl-3] = 0x03; pre[pl-2] = 0xff; pre[pl-1] = 0x10;
        memset(ob, 0xA5, n * 2 ? n * 2 : 1);
        size_t cons = 12345;
        int64_t d2 = carquet_rle_decode_levels_prefixed(pre, pl, bw, out, (int64_t)n, &cons);
        printf(" %lld %zu ", (long long)d2, cons); put_csv16(out, d2 < (int64_t)n ? d2 : (int64_t)n);
        free(pb);
    }
    free(ob); free(eb); free(ib); free(vb); carquet_buffer_destroy(&buf);
}

static void do_rle_ops(vh_case_t* c) {
    int bw = atoi(c->tok[2]);
    carquet_buffer_t buf; carquet_buffer_init(&buf);
    carquet_rle_encoder_t enc; carquet_rle_encoder_init(&enc, &buf, bw);
    carquet_status_t st = CARQUET_OK;
    for (int i = 3; i < c->n && st == CARQUET_OK; i++) {
        char* t = c->tok[i];
        if (t[0] == 'P') st = carquet_rle_encoder_put(&enc, (uint32_t)strtoul(t + 1, NULL, 10));
        else if (t[0] == 'R') { char* e; uint32_t v = (uint32_t)strtoul(t + 1, &e, 10); st = carquet_rle_encoder_put_repeat(&enc, v, strtoll(e + 1, NULL, 10)); }
        else if (t[0] == 'F') st = carquet_rle_encoder_flush(&enc);
    }
    printf("%s %d ", c->tok[0], (int)st); put_hex_or_dash(buf.data, buf.size);
    carquet_buffer_destroy(&buf);
}

static void do_rle_dec(vh_case_t* c, int kind) {   /* 0 decode_all, 1 levels, 2 levels prefixed */
    int bw = atoi(c->tok[2]); int64_t max = vh_ll(c->tok[3]); xin_t in = xin_hex(c->tok[4]);
    uint8_t* ob; size_t cap = max > 0 ? (size_t)max : 0;
    if (kind == 0) {
        uint32_t* out = (uint32_t*)xalloc(cap * 4, &ob);
        int64_t d = carquet_rle_decode_all(in.p, in.n, bw, out, max);
        printf("%s %lld ", c->tok[0], (long long)d); put_csv32(out, d < (int64_t)cap ? d : (int64_t)cap);
    } else {
        int16_t* out = (int16_t*)xalloc(cap * 2, &ob);
        size_t cons = 12345; int64_t d;
        if (kind == 1) d = carquet_rle_decode_levels(in.p, in.n, bw, out, max);
        else d = carquet_rle_decode_levels_prefixed(in.p, in.n, bw, out, max, &cons);
        printf("%s %lld ", c->tok[0], (long long)d);
        if (kind == 2) printf("%zu ", cons);
        put_csv16(out, d < (int64_t)cap ? d : (int64_t)cap);
    }
    free(ob); free(in.base);
}

static void do_rle_hist(vh_case_t* c) {
    int bw = atoi(c->tok[2]); xin_t in = xin_hex(c->tok[3]);
    carquet_rle_decoder_t dec; carquet_rle_decoder_init(&dec, in.p, in.n, bw);
    printf("%s", c->tok[0]);
    for (int i = 4; i < c->n; i++) {
        char* t = c->tok[i];
        if (t[0] == 'G') { uint32_t v = carquet_rle_decoder_get(&dec); printf(" g%u", v); }
        else if (t[0] == 'H') printf(" h%d", carquet_rle_decoder_has_next(&dec) ? 1 : 0);
        else if (t[0] == 'B') {
            int64_t k = vh_ll(t + 1); uint8_t* ob; uint32_t* out = (uint32_t*)xalloc((size_t)(k > 0 ? k : 0) * 4, &ob);
            int64_t d = carquet_rle_decoder_get_batch(&dec, out, k);
            printf(" b%lld:", (long long)d); put_csv32(out, d < k ? d : k); free(ob);
        } else if (t[0] == 'S') { int64_t d = carquet_rle_decoder_skip(&dec, vh_ll(t + 1)); printf(" s%lld", (long long)d); }
    }
    printf(" st%d", (int)carquet_rle_decoder_status(&dec));
    free(in.base);
}

/* ---------- raw bit packing ---------- */
static void do_bp_rt(vh_case_t* c) {
    int bw = atoi(c->tok[2]); size_t n; uint8_t* vb; uint64_t* v = csv_u64(c->tok[3], &n, &vb);
    uint8_t* ib; uint32_t* in = (uint32_t*)xalloc(n * 4, &ib);
    for (size_t i = 0; i < n; i++) in[i] = (uint32_t)v[i];
    /* room for whole 8-value groups (the documented unit of the packer) */
    size_t groups = (n + 7) / 8, cap = groups * (size_t)bw;
    uint8_t* pb; uint8_t* packed = (uint8_t*)xalloc(cap, &pb); memset(pb, 0, cap ? cap : 1);
    size_t wr = carquet_bitpack_32(in, n, bw, packed);
    printf("%s %zu ", c->tok[0], wr); put_hex_or_dash(packed, wr <= cap ? wr : cap);
    uint8_t* ob; uint32_t* out = (uint32_t*)xalloc(n * 4, &ob);
    size_t rd = carquet_bitunpack_32(packed, n, bw, out);
    printf(" %zu ", rd); put_csv32(out, (int64_t)n);
    free(ob); free(pb); free(ib); free(vb);
}
static void do_bp8_rt(vh_case_t* c) {
    int bw = atoi(c->tok[2]); size_t n; uint8_t* vb; uint64_t* v = csv_u64(c->tok[3], &n, &vb);
    uint8_t* ib; uint32_t* in = (uint32_t*)xalloc(8 * 4, &ib);
    for (size_t i = 0; i < 8; i++) in[i] = i < n ? (uint32_t)v[i] : 0;
    uint8_t* pb; uint8_t* packed = (uint8_t*)xalloc((size_t)bw, &pb);
    carquet_bitpack8_32(in, bw, packed);
    printf("%s ", c->tok[0]); put_hex_or_dash(packed, (size_t)bw);
    uint8_t* ob; uint32_t* out = (uint32_t*)xalloc(8 * 4, &ob);
    carquet_bitunpack8_32(packed, bw, out);
    fputc(' ', stdout); put_csv32(out, 8);
    free(ob); free(pb); free(ib); free(vb);
}
static void do_bp_unp(vh_case_t* c) {
    int bw = atoi(c->tok[2]); size_t count = (size_t)vh_ull(c->tok[3]); xin_t in = xin_hex(c->tok[4]);
    uint8_t* ob; uint32_t* out = (uint32_t*)xalloc(count * 4, &ob);
    size_t rd = carquet_bitunpack_32(in.p, count, bw, out);
    printf("%s %zu ", c->tok[0], rd); put_csv32(out, (int64_t)count);
    free(ob); free(in.base);
}
static void do_bw_rt(vh_case_t* c) {
    /* tokens "w:v,w:v" */
    const char* s = c->tok[2]; size_t n = csv_count(s);
    int* w = (int*)calloc(n ? n : 1, sizeof(int)); uint64_t* v = (uint64_t*)calloc(n ? n : 1, 8);
    const char* p = s; size_t bits = 0;
    for (size_t i = 0; i < n; i++) { char* e; w[i] = (int)strtol(p, &e, 10); v[i] = strtoull(e + 1, &e, 10); p = e + 1; bits += (size_t)w[i]; }
    size_t cap = (bits + 7) / 8; uint8_t* ob; uint8_t* out = (uint8_t*)xalloc(cap, &ob);
    carquet_bit_writer_t bwr; carquet_bit_writer_init(&bwr, out, cap);
    for (size_t i = 0; i < n; i++) {
        if (w[i] == 1) carquet_bit_writer_write_bit(&bwr, (int)v[i]);
        else if (w[i] <= 32) carquet_bit_writer_write_bits(&bwr, (uint32_t)v[i], w[i]);
        else carquet_bit_writer_write_bits64(&bwr, v[i], w[i]);
    }
    carquet_bit_writer_flush(&bwr);
    size_t nb = carquet_bit_writer_bytes_written(&bwr);
    printf("%s %zu ", c->tok[0], nb); put_hex_or_dash(out, nb <= cap ? nb : cap);
    carquet_bit_reader_t br; carquet_bit_reader_init(&br, out, nb <= cap ? nb : cap);
    fputc(' ', stdout);
    if (!n) fputc('-', stdout);
    for (size_t i = 0; i < n; i++) {
        uint64_t r;
        if (w[i] == 1) r = (uint64_t)(int64_t)carquet_bit_reader_read_bit(&br);
        else if (w[i] <= 32) r = carquet_bit_reader_read_bits(&br, w[i]);
        else r = carquet_bit_reader_read_bits64(&br, w[i]);
        printf(i ? ",%llu" : "%llu", (unsigned long long)r);
    }
    printf(" %d %zu", carquet_bit_reader_has_more(&br) ? 1 : 0, carquet_bit_reader_remaining_bits(&br));
    free(ob); free(w); free(v);
}
static void do_br_rd(vh_case_t* c) {
    xin_t in = xin_hex(c->tok[2]); size_t n; uint8_t* wb; uint64_t* w = csv_u64(c->tok[3], &n, &wb);
    carquet_bit_reader_t br; carquet_bit_reader_init(&br, in.p, in.n);
    printf("%s ", c->tok[0]);
    if (!n) fputc('-', stdout);
    for (size_t i = 0; i < n; i++) {
        uint64_t r = w[i] <= 32 ? carquet_bit_reader_read_bits(&br, (int)w[i]) : carquet_bit_reader_read_bits64(&br, (int)w[i]);
        printf(i ? ",%llu" : "%llu", (unsigned long long)r);
    }
    free(wb); free(in.base);
}

/* ---------- PLAIN ---------- */
static size_t plain_width(int type, int tlen) {
    switch (type) { case 0: return 1; case 1: case 4: return 4; case 2: case 5: return 8; case 3: return 12; case 7: return (size_t)(tlen > 0 ? tlen : 0); }
    return 0;
}
static void plain_print_decoded(int type, int tlen, const void* out, int64_t count, int64_t ret) {
    printf("%lld ", (long long)ret);
    if (ret < 0 || count <= 0) { fputc('-', stdout); return; }
    if (type == 6) put_strs((const carquet_byte_array_t*)out, count);
    else put_hex_or_dash(out, (size_t)count * plain_width(type, tlen));
}
static int64_t plain_decode_typed(int type, int tlen, const uint8_t* in, size_t n, void* out, int64_t count, int generic) {
    if (generic) return carquet_decode_plain(in, n, (carquet_physical_type_t)type, tlen, out, count);
    switch (type) {
        case 0: return carquet_decode_plain_boolean(in, n, (uint8_t*)out, count);
        case 1: return carquet_decode_plain_int32(in, n, (int32_t*)out, count);
        case 2: return carquet_decode_plain_int64(in, n, (int64_t*)out, count);
        case 3: return carquet_decode_plain_int96(in, n, (carquet_int96_t*)out, count);
        case 4: return carquet_decode_plain_float(in, n, (float*)out, count);
        case 5: return carquet_decode_plain_double(in, n, (double*)out, count);
        case 6: return carquet_decode_plain_byte_array(in, n, (carquet_byte_array_t*)out, count);
        case 7: return carquet_decode_plain_fixed_byte_array(in, n, (uint8_t*)out, count, tlen);
    }
    return -99;
}
static void do_plain_rt(vh_case_t* c) {
    int type = atoi(c->tok[2]), tlen = atoi(c->tok[3]); int64_t n = vh_ll(c->tok[4]);
    carquet_buffer_t buf; carquet_buffer_init(&buf); carquet_status_t st = CARQUET_OK;
    if (type == 6) {
        strs_t s = strs_parse(c->tok[5]);
        st = carquet_encode_plain_byte_array(s.a, (int64_t)s.n, &buf); n = (int64_t)s.n; strs_free(&s);
    } else {
        xin_t in = xin_hex(c->tok[5]);
        /* typed arrays need natural alignment: malloc gives it; n = 0 keeps a valid non-NULL pointer */
        void* p = in.n ? in.base : in.base;
        switch (type) {
            case 0: st = carquet_encode_plain_boolean((const uint8_t*)p, n, &buf); break;
            case 1: st = carquet_encode_plain_int32((const int32_t*)p, n, &buf); break;
            case 2: st = carquet_encode_plain_int64((const int64_t*)p, n, &buf); break;
            case 3: st = carquet_encode_plain_int96((const carquet_int96_t*)p, n, &buf); break;
            case 4: st = carquet_encode_plain_float((const float*)p, n, &buf); break;
            case 5: st = carquet_encode_plain_double((const double*)p, n, &buf); break;
            case 7: st = carquet_encode_plain_fixed_byte_array((const uint8_t*)p, n, tlen, &buf); break;
        }
        free(in.base);
    }
    printf("%s %d ", c->tok[0], (int)st); put_hex_or_dash(buf.data, buf.size);
    uint8_t* eb; uint8_t* enc = (uint8_t*)xalloc(buf.size, &eb); if (buf.size) memcpy(enc, buf.data, buf.size);
    size_t osz = type == 6 ? (size_t)n * sizeof(carquet_byte_array_t) : (size_t)n * plain_width(type, tlen);
    uint8_t* ob = (uint8_t*)malloc(osz ? osz : 1); memset(ob, 0xA5, osz ? osz : 1);
    int64_t ret = plain_decode_typed(type, tlen, buf.size ? enc : eb, buf.size, ob, n, 0);
    fputc(' ', stdout); plain_print_decoded(type, tlen, ob, n, ret);
    /* the generic entry point must agree */
    memset(ob, 0x5A, osz ? osz : 1);
    int64_t ret2 = plain_decode_typed(type, tlen, buf.size ? enc : eb, buf.size, ob, n, 1);
    fputc(' ', stdout); plain_print_decoded(type, tlen, ob, n, ret2);
    free(ob); free(eb); carquet_buffer_destroy(&buf);
}
static void do_plain_dec(vh_case_t* c) {
    int type = atoi(c->tok[2]), tlen = atoi(c->tok[3]); int64_t count = vh_ll(c->tok[4]); xin_t in = xin_hex(c->tok[5]);
    size_t cnt = count > 0 ? (size_t)count : 0;
    size_t osz = type == 6 ? cnt * sizeof(carquet_byte_array_t) : cnt * plain_width(type, tlen);
    uint8_t* ob; void* out = xalloc(osz, &ob);
    int64_t ret = plain_decode_typed(type, tlen, in.p, in.n, osz ? out : ob, count, 0);
    printf("%s ", c->tok[0]); plain_print_decoded(type, tlen, osz ? out : ob, count, ret);
    free(ob); free(in.base);
}

/* ---------- DELTA_BINARY_PACKED ---------- */
static void do_delta_rt(vh_case_t* c, int w) {
    int32_t n = (int32_t)vh_ll(c->tok[2]); xin_t in = xin_hex(c->tok[3]);
    /* always sufficient: header <= 40, per block <= 10 + 4 + 128 * 8 (the capacity is not under test here) */
    size_t cap = 64 + (((size_t)(n > 0 ? n : 0) + 127) / 128 + 1) * 1100; uint8_t* eb; uint8_t* enc = (uint8_t*)xalloc(cap, &eb);
    size_t wr = 99999999; carquet_status_t st;
    if (w == 4) st = carquet_delta_encode_int32((const int32_t*)in.base, n, enc, cap, &wr);
    else st = carquet_delta_encode_int64((const int64_t*)in.base, n, enc, cap, &wr);
    size_t used = (st == CARQUET_OK && wr <= cap) ? wr : 0;
    printf("%s %d %zu ", c->tok[0], (int)st, wr); put_hex_or_dash(enc, used);
    uint8_t* xb; uint8_t* ex = (uint8_t*)xalloc(used, &xb); if (used) memcpy(ex, enc, used);
    uint8_t* ob = (uint8_t*)malloc((size_t)n * w ? (size_t)n * w : 1); memset(ob, 0xA5, (size_t)n * w ? (size_t)n * w : 1);
    size_t cons = 12345; carquet_status_t ds;
    if (w == 4) ds = carquet_delta_decode_int32(ex, used, (int32_t*)ob, n, &cons);
    else ds = carquet_delta_decode_int64(ex, used, (int64_t*)ob, n, &cons);
    printf(" %d %zu ", (int)ds, cons); put_hex_or_dash(ob, ds == CARQUET_OK ? (size_t)n * w : 0);
    free(ob); free(xb); free(eb); free(in.base);
}
static void do_delta_dec(vh_case_t* c, int w) {
    int32_t count = (int32_t)vh_ll(c->tok[2]); xin_t in = xin_hex(c->tok[3]);
    size_t cnt = count > 0 ? (size_t)count : 0;
    uint8_t* ob = (uint8_t*)malloc(cnt * w ? cnt * w : 8); memset(ob, 0xA5, cnt * w ? cnt * w : 8);
    void* out = cnt ? (void*)ob : (void*)(ob + 8);
    size_t cons = 12345; carquet_status_t ds;
    if (w == 4) ds = carquet_delta_decode_int32(in.p, in.n, (int32_t*)out, count, &cons);
    else ds = carquet_delta_decode_int64(in.p, in.n, (int64_t*)out, count, &cons);
    printf("%s %d %zu ", c->tok[0], (int)ds, cons); put_hex_or_dash(ob, ds == CARQUET_OK ? cnt * w : 0);
    free(ob); free(in.base);
}

/* ---------- DELTA_LENGTH_BYTE_ARRAY / DELTA_BYTE_ARRAY ---------- */
static void do_dstr_rt(vh_case_t* c, int strings) {
    strs_t s = strs_parse(c->tok[2]);
    carquet_buffer_t buf; carquet_buffer_init(&buf);
    carquet_status_t st = strings ? carquet_delta_strings_encode(s.a, (int32_t)s.n, &buf)
                                  : carquet_delta_length_encode(s.a, (int32_t)s.n, &buf);
    printf("%s %d ", c->tok[0], (int)st); put_hex_or_dash(buf.data, buf.size);
    size_t total = 0; for (size_t i = 0; i < s.n; i++) total += (size_t)s.a[i].length;
    uint8_t* eb; uint8_t* enc = (uint8_t*)xalloc(buf.size, &eb); if (buf.size) memcpy(enc, buf.data, buf.size);
    uint8_t* ab; carquet_byte_array_t* out = (carquet_byte_array_t*)xalloc(s.n * sizeof(carquet_byte_array_t), &ab);
    uint8_t* wb; uint8_t* work = (uint8_t*)xalloc(total, &wb);
    size_t cons = 12345; carquet_status_t ds;
    if (strings) ds = carquet_delta_strings_decode(enc, buf.size, out, (int32_t)s.n, work, total, &cons);
    else ds = carquet_delta_length_decode(enc, buf.size, out, (int32_t)s.n, &cons);
    printf(" %d %zu ", (int)ds, cons); put_strs(out, ds == CARQUET_OK ? (int64_t)s.n : 0);
    free(wb); free(ab); free(eb); carquet_buffer_destroy(&buf); strs_free(&s);
}
static void do_dstr_dec(vh_case_t* c, int strings) {
    int32_t count = (int32_t)vh_ll(c->tok[2]);
    size_t workcap = strings ? (size_t)vh_ull(c->tok[3]) : 0;
    xin_t in = xin_hex(c->tok[strings ? 4 : 3]);
    size_t cnt = count > 0 ? (size_t)count : 0;
    uint8_t* ab; carquet_byte_array_t* out = (carquet_byte_array_t*)xalloc(cnt * sizeof(carquet_byte_array_t), &ab);
    uint8_t* wb; uint8_t* work = (uint8_t*)xalloc(workcap, &wb);
    size_t cons = 12345; carquet_status_t ds;
    if (strings) ds = carquet_delta_strings_decode(in.p, in.n, cnt ? out : (carquet_byte_array_t*)ab, count, work, workcap, &cons);
    else ds = carquet_delta_length_decode(in.p, in.n, cnt ? out : (carquet_byte_array_t*)ab, count, &cons);
    printf("%s %d %zu ", c->tok[0], (int)ds, cons);
    if (ds == CARQUET_OK && cnt) {
        /* every returned string must lie inside the input or the work buffer: touch it (ASan observes) */
        put_strs(out, (int64_t)cnt);
    } else fputc('-', stdout);
    free(wb); free(ab); free(in.base);
}

/* ---------- BYTE_STREAM_SPLIT ---------- */
static void do_bss(vh_case_t* c, int rt) {
    char kind = c->tok[2][0]; int32_t width = (int32_t)vh_ll(c->tok[3]); int64_t count = vh_ll(c->tok[4]); xin_t in = xin_hex(c->tok[5]);
    size_t cnt = count > 0 ? (size_t)count : 0;
    size_t w = kind == 'f' ? 4 : kind == 'd' ? 8 : (size_t)(width > 0 ? width : 0);
    size_t sz = cnt * w;
    printf("%s", c->tok[0]);
    uint8_t* eb = NULL; const uint8_t* src = in.p; size_t srcn = in.n;
    if (rt) {
        uint8_t* enc = (uint8_t*)xalloc(sz, &eb); size_t wr = 99999999; carquet_status_t st;
        if (kind == 'f') st = carquet_byte_stream_split_encode_float((const float*)in.base, count, enc, sz, &wr);
        else if (kind == 'd') st = carquet_byte_stream_split_encode_double((const double*)in.base, count, enc, sz, &wr);
        else st = carquet_byte_stream_split_encode(in.p, count, width, enc, sz, &wr);
        printf(" %d %zu ", (int)st, wr); put_hex_or_dash(enc, st == CARQUET_OK && wr <= sz ? wr : 0);
        src = enc; srcn = sz;
    }
    uint8_t* ob = (uint8_t*)malloc(sz ? sz : 8); memset(ob, 0xA5, sz ? sz : 8);
    void* out = sz ? (void*)ob : (void*)(ob + 8);
    carquet_status_t ds;
    if (kind == 'f') ds = carquet_byte_stream_split_decode_float(src, srcn, (float*)out, count);
    else if (kind == 'd') ds = carquet_byte_stream_split_decode_double(src, srcn, (double*)out, count);
    else ds = carquet_byte_stream_split_decode(src, srcn, width, (uint8_t*)out, count);
    printf(" %d ", (int)ds); put_hex_or_dash(ob, ds == CARQUET_OK ? sz : 0);
    free(ob); free(eb); free(in.base);
}

/* ---------- dictionary ---------- */
static void do_dict_rt(vh_case_t* c) {
    int type = atoi(c->tok[2]);
    carquet_buffer_t d, ix; carquet_buffer_init(&d); carquet_buffer_init(&ix);
    carquet_status_t st = CARQUET_OK; int64_t n = 0; size_t w = plain_width(type, 0);
    if (type == 6) { strs_t s = strs_parse(c->tok[3]); n = (int64_t)s.n; st = carquet_dictionary_encode_byte_array(s.a, n, &d, &ix); strs_free(&s); }
    else {
        xin_t in = xin_hex(c->tok[3]); n = (int64_t)(in.n / w);
        switch (type) {
            case 1: st = carquet_dictionary_encode_int32((const int32_t*)in.base, n, &d, &ix); break;
            case 2: st = carquet_dictionary_encode_int64((const int64_t*)in.base, n, &d, &ix); break;
            case 4: st = carquet_dictionary_encode_float((const float*)in.base, n, &d, &ix); break;
            case 5: st = carquet_dictionary_encode_double((const double*)in.base, n, &d, &ix); break;
        }
        free(in.base);
    }
    printf("%s %d ", c->tok[0], (int)st); put_hex_or_dash(d.data, d.size); fputc(' ', stdout); put_hex_or_dash(ix.data, ix.size);
    if (type != 6) {
        uint8_t* db; uint8_t* dd = (uint8_t*)xalloc(d.size, &db); if (d.size) memcpy(dd, d.data, d.size);
        uint8_t* xb; uint8_t* xx = (uint8_t*)xalloc(ix.size, &xb); if (ix.size) memcpy(xx, ix.data, ix.size);
        int32_t dcount = (int32_t)(d.size / w);
        size_t osz = (size_t)n * w; uint8_t* ob = (uint8_t*)malloc(osz ? osz : 8); memset(ob, 0xA5, osz ? osz : 8);
        carquet_status_t ds = CARQUET_OK;
        switch (type) {
            case 1: ds = carquet_dictionary_decode_int32(dd, d.size, dcount, xx, ix.size, (int32_t*)ob, n); break;
            case 2: ds = carquet_dictionary_decode_int64(dd, d.size, dcount, xx, ix.size, (int64_t*)ob, n); break;
            case 4: ds = carquet_dictionary_decode_float(dd, d.size, dcount, xx, ix.size, (float*)ob, n); break;
            case 5: ds = carquet_dictionary_decode_double(dd, d.size, dcount, xx, ix.size, (double*)ob, n); break;
        }
        printf(" %d ", (int)ds); put_hex_or_dash(ob, ds == CARQUET_OK ? osz : 0);
        free(ob); free(xb); free(db);
    }
    carquet_buffer_destroy(&d); carquet_buffer_destroy(&ix);
}
static void do_dict_dec(vh_case_t* c) {
    int type = atoi(c->tok[2]); int32_t dcount = (int32_t)vh_ll(c->tok[3]);
    xin_t d = xin_hex(c->tok[4]); xin_t ix = xin_hex(c->tok[5]); int64_t n = vh_ll(c->tok[6]);
    size_t w = plain_width(type, 0); size_t cnt = n > 0 ? (size_t)n : 0; size_t osz = cnt * w;
    uint8_t* ob = (uint8_t*)malloc(osz ? osz : 8); memset(ob, 0xA5, osz ? osz : 8);
    void* out = osz ? (void*)ob : (void*)(ob + 8);
    carquet_status_t ds = CARQUET_OK;
    switch (type) {
        case 1: ds = carquet_dictionary_decode_int32(d.p, d.n, dcount, ix.p, ix.n, (int32_t*)out, n); break;
        case 2: ds = carquet_dictionary_decode_int64(d.p, d.n, dcount, ix.p, ix.n, (int64_t*)out, n); break;
        case 4: ds = carquet_dictionary_decode_float(d.p, d.n, dcount, ix.p, ix.n, (float*)out, n); break;
        case 5: ds = carquet_dictionary_decode_double(d.p, d.n, dcount, ix.p, ix.n, (double*)out, n); break;
    }
    printf("%s %d ", c->tok[0], (int)ds); put_hex_or_dash(ob, ds == CARQUET_OK ? osz : 0);
    free(ob); free(d.base); free(ix.base);
}

int main(void) {
    vh_case_t c = {0};
    while (vh_next(&c)) {
        if (c.n < 2) continue;
        vh_begin(&c);
        const char* op = c.tok[1];
        if (!strcmp(op, "rle_rt")) do_rle_rt(&c, 0);
        else if (!strcmp(op, "lvl_rt")) do_rle_rt(&c, 1);
        else if (!strcmp(op, "rle_ops")) do_rle_ops(&c);
        else if (!strcmp(op, "rle_dec")) do_rle_dec(&c, 0);
        else if (!strcmp(op, "lvl_dec")) do_rle_dec(&c, 1);
        else if (!strcmp(op, "lvlp_dec")) do_rle_dec(&c, 2);
        else if (!strcmp(op, "rle_hist")) do_rle_hist(&c);
        else if (!strcmp(op, "bp_rt")) do_bp_rt(&c);
        else if (!strcmp(op, "bp8_rt")) do_bp8_rt(&c);
        else if (!strcmp(op, "bp_unp")) do_bp_unp(&c);
        else if (!strcmp(op, "bw_rt")) do_bw_rt(&c);
        else if (!strcmp(op, "br_rd")) do_br_rd(&c);
        else if (!strcmp(op, "plain_rt")) do_plain_rt(&c);
        else if (!strcmp(op, "plain_dec")) do_plain_dec(&c);
        else if (!strcmp(op, "d32_rt")) do_delta_rt(&c, 4);
        else if (!strcmp(op, "d64_rt")) do_delta_rt(&c, 8);
        else if (!strcmp(op, "d32_dec")) do_delta_dec(&c, 4);
        else if (!strcmp(op, "d64_dec")) do_delta_dec(&c, 8);
        else if (!strcmp(op, "dl_rt")) do_dstr_rt(&c, 0);
        else if (!strcmp(op, "ds_rt")) do_dstr_rt(&c, 1);
        else if (!strcmp(op, "dl_dec")) do_dstr_dec(&c, 0);
        else if (!strcmp(op, "ds_dec")) do_dstr_dec(&c, 1);
        else if (!strcmp(op, "bss_rt")) do_bss(&c, 1);
        else if (!strcmp(op, "bss_dec")) do_bss(&c, 0);
        else if (!strcmp(op, "dict_rt")) do_dict_rt(&c);
        else if (!strcmp(op, "dict_dec")) do_dict_dec(&c);
        else printf("%s ERR unknown-op", c.tok[0]);
        vh_end();
    }
    vh_finish(&c);
    return 0;
}
