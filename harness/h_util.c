/* h_util.c - replayer for Bloom filter histories, XXH64 and CRC-32 cases (C20, C14 function part).
 *
 *  <id> bloom <req> <op>...      ops: IA:<type>:<hex> IB:<type>:<hex> M R HA:<hex8> HB:<hex8>
 *                                then  P:<type>:<hex> probes (answered in order, for A and B)
 *      -> <id> <sizeA> <hexA> <hexB> <probe answers: two chars per probe, A then B>
 *  <id> xxh <seed hex8 LE> <hex data> <misalign>   -> <id> <hash hex8 LE>
 *  <id> crc <hex data> <misalign>                  -> <id> <crc hex4 LE>
 *  <id> crcu <hex a> <hex b> <misalign>            -> <id> <crc(a) LE> <update(crc(a),b) LE>
 */
#include "vh.h"
#include <carquet/carquet.h>

extern uint64_t carquet_xxhash64(const void* data, size_t length, uint64_t seed);
extern uint32_t carquet_crc32(const uint8_t* data, size_t length);
extern uint32_t carquet_crc32_update(uint32_t crc, const uint8_t* data, size_t length);

carquet_bloom_filter_t* carquet_bloom_filter_create(size_t num_bytes);
carquet_bloom_filter_t* carquet_bloom_filter_create_with_ndv(int64_t ndv, double fpp);
void carquet_bloom_filter_destroy(carquet_bloom_filter_t* filter);
void carquet_bloom_filter_insert_hash(carquet_bloom_filter_t* filter, uint64_t hash);
void carquet_bloom_filter_insert_i32(carquet_bloom_filter_t* filter, int32_t value);
void carquet_bloom_filter_insert_i64(carquet_bloom_filter_t* filter, int64_t value);
void carquet_bloom_filter_insert_float(carquet_bloom_filter_t* filter, float value);
void carquet_bloom_filter_insert_double(carquet_bloom_filter_t* filter, double value);
void carquet_bloom_filter_insert_bytes(carquet_bloom_filter_t* filter, const uint8_t* data, size_t len);
bool carquet_bloom_filter_check_hash(const carquet_bloom_filter_t* filter, uint64_t hash);
bool carquet_bloom_filter_check_i32(const carquet_bloom_filter_t* filter, int32_t value);
bool carquet_bloom_filter_check_i64(const carquet_bloom_filter_t* filter, int64_t value);
bool carquet_bloom_filter_check_float(const carquet_bloom_filter_t* filter, float value);
bool carquet_bloom_filter_check_double(const carquet_bloom_filter_t* filter, double value);
bool carquet_bloom_filter_check_bytes(const carquet_bloom_filter_t* filter, const uint8_t* data, size_t len);
const uint8_t* carquet_bloom_filter_data(const carquet_bloom_filter_t* filter);
size_t carquet_bloom_filter_size(const carquet_bloom_filter_t* filter);
size_t carquet_bloom_filter_num_blocks(const carquet_bloom_filter_t* filter);
carquet_status_t carquet_bloom_filter_write(const carquet_bloom_filter_t* filter, uint8_t* output, size_t output_capacity, size_t* bytes_written);
carquet_status_t carquet_bloom_filter_read(carquet_bloom_filter_t** filter_out, const uint8_t* data, size_t data_size);
carquet_status_t carquet_bloom_filter_merge(carquet_bloom_filter_t* dest, const carquet_bloom_filter_t* src);

static void ins(carquet_bloom_filter_t* f, const char* type, const uint8_t* b, size_t n) {
    if (!strcmp(type, "i32")) { int32_t v; memcpy(&v, b, 4); carquet_bloom_filter_insert_i32(f, v); }
    else if (!strcmp(type, "i64")) { int64_t v; memcpy(&v, b, 8); carquet_bloom_filter_insert_i64(f, v); }
    else if (!strcmp(type, "f32")) { float v; memcpy(&v, b, 4); carquet_bloom_filter_insert_float(f, v); }
    else if (!strcmp(type, "f64")) { double v; memcpy(&v, b, 8); carquet_bloom_filter_insert_double(f, v); }
    else if (!strcmp(type, "hash")) { uint64_t v; memcpy(&v, b, 8); carquet_bloom_filter_insert_hash(f, v); }
    else carquet_bloom_filter_insert_bytes(f, b, n);
}
static bool chk(const carquet_bloom_filter_t* f, const char* type, const uint8_t* b, size_t n) {
    if (!strcmp(type, "i32")) { int32_t v; memcpy(&v, b, 4); return carquet_bloom_filter_check_i32(f, v); }
    if (!strcmp(type, "i64")) { int64_t v; memcpy(&v, b, 8); return carquet_bloom_filter_check_i64(f, v); }
    if (!strcmp(type, "f32")) { float v; memcpy(&v, b, 4); return carquet_bloom_filter_check_float(f, v); }
    if (!strcmp(type, "f64")) { double v; memcpy(&v, b, 8); return carquet_bloom_filter_check_double(f, v); }
    if (!strcmp(type, "hash")) { uint64_t v; memcpy(&v, b, 8); return carquet_bloom_filter_check_hash(f, v); }
    return carquet_bloom_filter_check_bytes(f, b, n);
}

static void do_bloom(vh_case_t* c) {
    size_t req = (size_t)vh_ull(c->tok[2]);
    carquet_bloom_filter_t* A = carquet_bloom_filter_create(req);
    carquet_bloom_filter_t* B = carquet_bloom_filter_create(req);
    char answers[4096]; int na = 0;
    if (!A || !B) { printf("%s ERR create", c->tok[0]); carquet_bloom_filter_destroy(A); carquet_bloom_filter_destroy(B); return; }
    for (int i = 3; i < c->n; i++) {
        char* t = c->tok[i];
        if (t[0] == 'M') {
            if (carquet_bloom_filter_merge(A, B) != CARQUET_OK) { answers[na++] = '!'; }
        } else if (t[0] == 'R') {
            size_t sz = carquet_bloom_filter_size(A), w = 0;
            uint8_t* buf = malloc(sz ? sz : 1);
            carquet_status_t st = carquet_bloom_filter_write(A, buf, sz, &w);
            carquet_bloom_filter_t* A2 = NULL;
            if (st == CARQUET_OK) st = carquet_bloom_filter_read(&A2, buf, w);
            free(buf);
            if (st != CARQUET_OK || !A2) { answers[na++] = '!'; }
            else { carquet_bloom_filter_destroy(A); A = A2; }
        } else {
            char* type = strchr(t, ':') + 1;
            char* hex = strchr(type, ':'); *hex++ = 0;
            size_t n; uint8_t* b = vh_unhex(hex, &n);
            if (t[0] == 'I') ins(t[1] == 'A' ? A : B, type, b, n);
            else if (t[0] == 'P') {
                answers[na++] = chk(A, type, b, n) ? '1' : '0';
                answers[na++] = chk(B, type, b, n) ? '1' : '0';
            }
            free(b);
        }
    }
    answers[na] = 0;
    printf("%s %zu ", c->tok[0], carquet_bloom_filter_size(A));
    vh_puthex(carquet_bloom_filter_data(A), carquet_bloom_filter_size(A)); fputc(' ', stdout);
    vh_puthex(carquet_bloom_filter_data(B), carquet_bloom_filter_size(B));
    printf(" %s", na ? answers : "-");
    carquet_bloom_filter_destroy(A); carquet_bloom_filter_destroy(B);
}

/* copy data to a heap buffer at a chosen misalignment, exact size at the end */
static uint8_t* place(const uint8_t* d, size_t n, int mis, uint8_t** base) {
    *base = malloc(n + 64 + 1);
    /* put the data so that it ends at the end of the allocation: over-reads hit ASan redzone */
    size_t total = n + 64 + 1;
    uintptr_t end = (uintptr_t)(*base) + total;
    uintptr_t start = end - n;
    /* adjust start downwards so that start % 16 == mis (keeps us inside the buffer) */
    uintptr_t adj = (start - (uintptr_t)mis) & 15u;
    start -= adj;
    uint8_t* p = (uint8_t*)start;
    memcpy(p, d, n);
    return p;
}

int main(void) {
    vh_case_t c = {0};
    while (vh_next(&c)) {
        if (c.n < 2) continue;
        vh_begin(&c);
        if (!strcmp(c.tok[1], "bloom")) do_bloom(&c);
        else if (!strcmp(c.tok[1], "xxh")) {
            size_t ns, n; uint8_t* s = vh_unhex(c.tok[2], &ns); uint8_t* d = vh_unhex(c.tok[3], &n);
            uint64_t seed; memcpy(&seed, s, 8);
            int mis = atoi(c.tok[4]);
            uint8_t* base; uint8_t* p = place(d, n, mis, &base);
            uint64_t h = carquet_xxhash64(n && mis == 99 ? d : p, n, seed);
            printf("%s ", c.tok[0]); vh_puthex(&h, 8);
            free(base); free(s); free(d);
        } else if (!strcmp(c.tok[1], "crc")) {
            size_t n; uint8_t* d = vh_unhex(c.tok[2], &n);
            int mis = atoi(c.tok[3]);
            uint8_t* base; uint8_t* p = place(d, n, mis, &base);
            uint32_t r = carquet_crc32(p, n);
            printf("%s ", c.tok[0]); vh_puthex(&r, 4);
            free(base); free(d);
        } else if (!strcmp(c.tok[1], "crcu")) {
            size_t na, nb; uint8_t* a = vh_unhex(c.tok[2], &na); uint8_t* b = vh_unhex(c.tok[3], &nb);
            int mis = atoi(c.tok[4]);
            uint8_t* base; uint8_t* p = place(b, nb, mis, &base);
            uint32_t r1 = carquet_crc32(a, na);
            uint32_t r2 = carquet_crc32_update(r1, p, nb);
            printf("%s ", c.tok[0]); vh_puthex(&r1, 4); fputc(' ', stdout); vh_puthex(&r2, 4);
            free(base); free(a); free(b);
        } else printf("%s ERR unknown-op", c.tok[0]);
        vh_end();
    }
    vh_finish(&c);
    return 0;
}
