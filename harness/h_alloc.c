/* h_alloc.c - scenario interpreter with allocation-fault injection (property C19).
 *
 * The command language is the one of h_file.c (command handling copied from there, every library
 * call wrapped in LIB()/LIBV() so the harness knows when libcarquet code is running) plus:
 *
 *   k:<n>      the n-th allocation request made by libcarquet inside the armed window fails
 *              (n = 0: count only)
 *   !  / ~     arm / disarm the window (requests outside the window are neither counted nor failed);
 *              reader commands after a window in which a call reported an error are skipped: the
 *              client does not read back a file whose writer reported a failure
 *   u:<path>   unlink a file left over from an earlier case
 *   E:<p>      client policy after the first error status inside the window:
 *                a = stop using the handles, writer is aborted (C is executed as A)
 *                c = stop using the handles, writer is closed  (C is executed)
 *                n = keep calling (later results are not promised anything, memory safety only)
 *   Dc         carquet_schema_create           Dg:<namehex>:<rep>   add_group (root)
 *   Dl:<namehex>:<type>:<rep>:<tlen>  add_column     Dd  dump the schema    Df  schema_free
 *   (names may be given as  *<byte>x<count>  = <count> copies of <byte>, for names that overflow
 *    an arena block)
 *
 * Link with -Wl,--wrap=malloc,--wrap=calloc,--wrap=realloc,--wrap=strdup. Only the direct requests
 * of libcarquet.a objects made while g_in_lib is set are counted; the harness' own allocations,
 * libc's (FILE buffers), zlib's/zstd's and libgomp's are not (they live in shared objects).
 *
 * Per case the harness prints the h_file result tokens, after the token of a command during which
 * the fault was delivered a token "h=1", and at the end "A=<requests counted>:<fired>" and "LEAK"
 * if LeakSanitizer found unreachable memory after every handle of the scenario was released.
 * After a leak the process exits (so the next case starts from a clean heap).
 * stderr: "@@CASE <id>" per case, "@@INJECT <id> <n>" + the stack of the failed request.
 * The harness only copies bytes in and out; it never judges.
 */
#include "vh.h"
#include <carquet/carquet.h>
#include "reader/reader_internal.h"
#include <errno.h>

#ifdef __SANITIZE_ADDRESS__
void __sanitizer_print_stack_trace(void);
#define VH_STACK() __sanitizer_print_stack_trace()
#else
#define VH_STACK() ((void)0)
#endif

/* ------------------------------------------------------------------ fault injection */
static volatile int g_in_lib = 0;
static volatile int g_armed = 0;
static long g_count = 0, g_fail_at = 0;
static volatile int g_fired = 0;
static const char* g_case_id = "?";
static int g_stack = 1;

void* __real_malloc(size_t);
void* __real_calloc(size_t, size_t);
void* __real_realloc(void*, size_t);
char* __real_strdup(const char*);

static int should_fail(void) {
    if (!g_in_lib || !g_armed) return 0;
    long n = __atomic_add_fetch(&g_count, 1, __ATOMIC_SEQ_CST);
    if (n == g_fail_at) {
        g_fired = 1;
        int keep = g_in_lib; g_in_lib = 0;        /* the report itself may allocate */
        fprintf(stderr, "@@INJECT %s %ld\n", g_case_id, n);
        if (g_stack) VH_STACK();
        fprintf(stderr, "@@END\n");
        g_in_lib = keep;
        errno = ENOMEM;
        return 1;
    }
    return 0;
}
void* __wrap_malloc(size_t n) { return should_fail() ? NULL : __real_malloc(n); }
void* __wrap_calloc(size_t a, size_t b) { return should_fail() ? NULL : __real_calloc(a, b); }
void* __wrap_realloc(void* p, size_t n) { return should_fail() ? NULL : __real_realloc(p, n); }
char* __wrap_strdup(const char* s) { return should_fail() ? NULL : __real_strdup(s); }

#define LIB(e) ({ g_in_lib = 1; __typeof__(e) _r = (e); g_in_lib = 0; _r; })
/* carquet_schema_node_name is declared returns_nonnull, so the compiler deletes NULL tests on its
 * result; after a failed allocation the library may nevertheless return NULL. Launder the pointer. */
static const char* node_name(const carquet_schema_node_t* nd) {
    const char* nm = LIB(carquet_schema_node_name(nd));
    __asm__ volatile("" : "+r"(nm));
    return nm;
}
#define LIBV(e) do { g_in_lib = 1; e; g_in_lib = 0; } while (0)

/* ------------------------------------------------------------------ state (as h_file.c) */
#define MAXCOLS 512
#define MAXKEPT 256
#define MAXNAME 70000

typedef struct { char* name; int type, rep, tlen; } coldef_t;

static coldef_t g_cols[MAXCOLS];
static int g_ncols = 0;
static carquet_schema_t* g_schema = NULL;
static carquet_writer_t* g_writer = NULL;
static FILE* g_wfile = NULL;
static carquet_reader_t* g_reader = NULL;
static uint8_t* g_filebuf = NULL;
static carquet_column_reader_t* g_col = NULL;
static int g_col_type = 0, g_col_tlen = 0, g_col_maxdef = 0;
static carquet_batch_reader_t* g_br = NULL;
static int g_proj[MAXCOLS]; static int g_nproj = 0;
static char g_policy = 'a';
static int g_errseen = 0;                /* an error status was seen inside the window */
static int g_rb_skip = 0;                /* the window saw an error: the client does not read the file back */

static carquet_byte_array_t* g_last_ba = NULL; static int64_t g_last_ba_n = 0; static uint8_t* g_last_snapshot = NULL;

typedef struct { carquet_row_batch_t* b; uint8_t* snap; size_t snaplen; } kept_t;
static kept_t g_kept[MAXKEPT]; static int g_nkept = 0;

static void seen_error(void) { if (g_armed) g_errseen = 1; }

static size_t value_size(int type, int tlen) {
    switch (type) {
        case CARQUET_PHYSICAL_BOOLEAN: return 1;
        case CARQUET_PHYSICAL_INT32: case CARQUET_PHYSICAL_FLOAT: return 4;
        case CARQUET_PHYSICAL_INT64: case CARQUET_PHYSICAL_DOUBLE: return 8;
        case CARQUET_PHYSICAL_INT96: return 12;
        case CARQUET_PHYSICAL_FIXED_LEN_BYTE_ARRAY: return tlen > 0 ? (size_t)tlen : 0;
        case CARQUET_PHYSICAL_BYTE_ARRAY: return sizeof(carquet_byte_array_t);
        default: return 0;
    }
}

static char* field(char* s, int k) {
    static char buf[8][1 << 20];
    static int slot = 0;
    const char* p = s;
    for (int i = 0; i < k; i++) { p = strchr(p, ':'); if (!p) return NULL; p++; }
    const char* e = strchr(p, ':');
    size_t n = e ? (size_t)(e - p) : strlen(p);
    char* out = buf[slot]; slot = (slot + 1) % 8;
    if (n >= sizeof(buf[0])) n = sizeof(buf[0]) - 1;
    memcpy(out, p, n); out[n] = 0;
    return out;
}

/* name token: hex, or *<byte>x<count> */
static char* name_of(const char* tok) {
    if (tok[0] == '*') {
        int byte = atoi(tok + 1);
        const char* x = strchr(tok, 'x');
        size_t n = x ? (size_t)atol(x + 1) : 0;
        if (n > MAXNAME) n = MAXNAME;
        char* s = (char*)malloc(n + 1);
        memset(s, byte, n); s[n] = 0;
        return s;
    }
    size_t n; uint8_t* nm = vh_unhex(tok, &n);
    char* s = (char*)malloc(n + 1);
    memcpy(s, nm, n); s[n] = 0; free(nm);
    return s;
}

static void put_name(const char* nm) {
    /* long runs of one byte are printed back in the *<byte>x<count> form */
    size_t n = strlen(nm);
    if (n > 64) {
        size_t i = 1; while (i < n && nm[i] == nm[0]) i++;
        if (i == n) { printf("*%dx%zu", (int)(unsigned char)nm[0], n); return; }
    }
    vh_puthex(nm, n);
}

static void recheck_last(void) {
    if (!g_last_ba) return;
    size_t off = 0; int bad = 0;
    for (int64_t i = 0; i < g_last_ba_n; i++) {
        if (g_last_ba[i].length > 0 && memcmp(g_last_ba[i].data, g_last_snapshot + off, (size_t)g_last_ba[i].length) != 0) bad = 1;
        off += (size_t)g_last_ba[i].length;
    }
    if (bad) fputs(" L=changed", stdout);
    free(g_last_ba); free(g_last_snapshot); g_last_ba = NULL; g_last_snapshot = NULL; g_last_ba_n = 0;
}

static int ba_sane(const carquet_byte_array_t* a, int64_t nn) {
    for (int64_t i = 0; i < nn; i++) if (a[i].length < 0 || a[i].length > (1 << 26) || (a[i].length > 0 && !a[i].data)) return 0;
    return 1;
}

static void dump_values(const void* vals, int type, int tlen, int64_t nn) {
    if (type == CARQUET_PHYSICAL_BYTE_ARRAY) {
        const carquet_byte_array_t* a = (const carquet_byte_array_t*)vals;
        int any = 0;
        if (!ba_sane(a, nn)) { fputs("!badlen", stdout); return; }
        for (int64_t i = 0; i < nn; i++) {
            uint32_t l = (uint32_t)a[i].length;
            vh_puthex(&l, 4); any = 1;
            if (a[i].length > 0) { static const char* d = "0123456789abcdef"; for (int32_t j = 0; j < a[i].length; j++) { fputc(d[a[i].data[j] >> 4], stdout); fputc(d[a[i].data[j] & 15], stdout); } }
        }
        if (!any) fputc('-', stdout);
    } else {
        vh_puthex(vals, (size_t)nn * value_size(type, tlen));
    }
}

/* ------------------------------------------------------------------ schema-build scenario */
static void cmd_schema_script(char* t) {
    switch (t[1]) {
        case 'c': {
            if (g_schema) { fputs(" Dc=busy", stdout); return; }
            carquet_error_t err = CARQUET_ERROR_INIT;
            g_schema = LIB(carquet_schema_create(&err));
            if (g_schema) fputs(" Dc=ok", stdout); else { printf(" Dc=err:%d", (int)err.code); seen_error(); }
            break;
        }
        case 'g': {
            if (!g_schema) { fputs(" Dg=noschema", stdout); return; }
            char* nm = name_of(field(t, 1));
            int32_t r = LIB(carquet_schema_add_group(g_schema, nm, (carquet_field_repetition_t)atoi(field(t, 2)), 0));
            printf(" Dg=%d", (int)r); if (r < 0) seen_error();
            free(nm);
            break;
        }
        case 'l': {
            if (!g_schema) { fputs(" Dl=noschema", stdout); return; }
            char* nm = name_of(field(t, 1));
            carquet_status_t st = LIB(carquet_schema_add_column(g_schema, nm, (carquet_physical_type_t)atoi(field(t, 2)), NULL,
                                                                (carquet_field_repetition_t)atoi(field(t, 3)), atoi(field(t, 4))));
            printf(" Dl=%d", (int)st); if (st != CARQUET_OK) seen_error();
            free(nm);
            break;
        }
        case 'd': {
            if (!g_schema) { fputs(" Dd=noschema", stdout); return; }
            int32_t ne = LIB(carquet_schema_num_elements(g_schema)), nl = LIB(carquet_schema_num_columns(g_schema));
            printf(" Dd=%d:%d", (int)ne, (int)nl);
            for (int32_t i = 0; i < ne; i++) {
                const carquet_schema_node_t* nd = LIB(carquet_schema_get_element(g_schema, i));
                if (!nd) { fputs(":?", stdout); continue; }
                const char* nm = node_name(nd);
                int leaf = LIB(carquet_schema_node_is_leaf(nd));
                fputc(':', stdout);
                if (nm) put_name(nm); else fputc('?', stdout);
                printf(",%d,%d,%d,%d,%d", leaf, leaf ? (int)LIB(carquet_schema_node_physical_type(nd)) : -1,
                       i == 0 ? -1 : (int)LIB(carquet_schema_node_repetition(nd)), leaf ? (int)LIB(carquet_schema_node_type_length(nd)) : 0,
                       (int)g_schema->elements[i].num_children);
            }
            for (int32_t i = 0; i < nl; i++) printf(":%d", (int)g_schema->leaf_indices[i]);
            break;
        }
        case 'f':
            if (g_schema) { LIBV(carquet_schema_free(g_schema)); g_schema = NULL; }
            fputs(" Df=ok", stdout);
            break;
        default: printf(" ?=D%c", t[1]);
    }
}

/* ------------------------------------------------------------------ writer */
static void cmd_schema_col(char* t) {
    if (g_ncols >= MAXCOLS) { fputs(" S=toomany", stdout); return; }
    coldef_t* c = &g_cols[g_ncols];
    c->name = name_of(field(t, 1));
    c->type = atoi(field(t, 2)); c->rep = atoi(field(t, 3)); c->tlen = atoi(field(t, 4));
    g_ncols++;
}

static int make_schema(void) {
    carquet_error_t err = CARQUET_ERROR_INIT;
    g_schema = LIB(carquet_schema_create(&err));
    if (!g_schema) return -1;
    for (int i = 0; i < g_ncols; i++) {
        carquet_status_t st = LIB(carquet_schema_add_column(g_schema, g_cols[i].name, (carquet_physical_type_t)g_cols[i].type,
            NULL, (carquet_field_repetition_t)g_cols[i].rep, g_cols[i].tlen));
        if (st != CARQUET_OK) return (int)st;
    }
    return 0;
}

static void cmd_writer_create(char* t) {
    int r = make_schema();
    if (r != 0) { printf(" W=schema-err%d", r); seen_error(); return; }
    carquet_writer_options_t opt; carquet_writer_options_init(&opt);
    opt.compression = (carquet_compression_t)atoi(field(t, 2));
    opt.page_size = atoll(field(t, 3));
    char* mode = field(t, 4);
    carquet_error_t err = CARQUET_ERROR_INIT;
    if (mode && mode[0] == 'f') {
        g_wfile = fopen(field(t, 1), "wb");
        if (!g_wfile) { fputs(" W=fopen-failed", stdout); return; }
        g_writer = LIB(carquet_writer_create_file(g_wfile, g_schema, &opt, &err));
    } else {
        g_writer = LIB(carquet_writer_create(field(t, 1), g_schema, &opt, &err));
    }
    if (g_writer) fputs(" W=ok", stdout); else { printf(" W=err%d", (int)err.code); seen_error(); }
}

static void cmd_write_batch(char* t) {
    if (!g_writer) { fputs(" B=nowriter", stdout); return; }
    int col = atoi(field(t, 1));
    int64_t nrows = atoll(field(t, 2));
    char* defs = field(t, 3);
    size_t vlen; uint8_t* raw = vh_unhex(field(t, 4), &vlen);
    int16_t* dl = NULL;
    int64_t nn = nrows;
    if (!(defs[0] == '-' && defs[1] == 0)) {
        dl = (int16_t*)malloc(sizeof(int16_t) * (size_t)(nrows ? nrows : 1));
        nn = 0;
        int maxdef = (col >= 0 && col < g_ncols && g_cols[col].rep == CARQUET_REPETITION_OPTIONAL) ? 1 : 0;
        for (int64_t i = 0; i < nrows; i++) { dl[i] = (int16_t)(defs[i] - '0'); if (dl[i] == maxdef) nn++; }
    }
    int type = (col >= 0 && col < g_ncols) ? g_cols[col].type : CARQUET_PHYSICAL_INT32;
    void* vals; carquet_byte_array_t* ba = NULL; uint8_t** owned = NULL;
    if (type == CARQUET_PHYSICAL_BYTE_ARRAY) {
        ba = (carquet_byte_array_t*)malloc(sizeof(carquet_byte_array_t) * (size_t)(nn ? nn : 1));
        owned = (uint8_t**)calloc((size_t)(nn ? nn : 1), sizeof(uint8_t*));
        size_t off = 0;
        for (int64_t i = 0; i < nn; i++) {
            uint32_t l; memcpy(&l, raw + off, 4); off += 4;
            owned[i] = (uint8_t*)malloc(l ? l : 1);
            memcpy(owned[i], raw + off, l); off += l;
            ba[i].data = owned[i]; ba[i].length = (int32_t)l;
        }
        vals = ba;
    } else {
        vals = malloc(vlen ? vlen : 1);
        memcpy(vals, raw, vlen);
    }
    carquet_status_t st = LIB(carquet_writer_write_batch(g_writer, col, vals, nrows, dl, NULL));
    printf(" B=%d", (int)st); if (st != CARQUET_OK) seen_error();
    if (ba) { for (int64_t i = 0; i < nn; i++) free(owned[i]); free(owned); free(ba); } else free(vals);
    free(dl); free(raw);
}

static void cmd_dump_file(char* t) {
    FILE* f = fopen(field(t, 1), "rb");
    if (!f) { fputs(" F=absent", stdout); return; }
    fseek(f, 0, SEEK_END); long n = ftell(f); fseek(f, 0, SEEK_SET);
    uint8_t* b = (uint8_t*)malloc(n > 0 ? (size_t)n : 1);
    if (n > 0 && fread(b, 1, (size_t)n, f) != (size_t)n) { fputs(" F=readerr", stdout); fclose(f); free(b); return; }
    fclose(f);
    fputs(" F=", stdout); vh_puthex(b, (size_t)n);
    free(b);
}

/* ------------------------------------------------------------------ reader */
static void cmd_open(char* t) {
    carquet_reader_options_t opt; carquet_reader_options_init(&opt);
    char* mode = field(t, 2);
    char* ver = field(t, 3);
    if (ver) opt.verify_checksums = atoi(ver) != 0;
    carquet_error_t err; memset(&err, 0x5a, sizeof(err)); err.code = CARQUET_OK;
    if (mode[0] == 'm') opt.use_mmap = true;
    if (mode[0] == 'b') {
        FILE* f = fopen(field(t, 1), "rb");
        if (!f) { fputs(" O=nofile", stdout); return; }
        fseek(f, 0, SEEK_END); long n = ftell(f); fseek(f, 0, SEEK_SET);
        g_filebuf = (uint8_t*)malloc(n > 0 ? (size_t)n : 1);
        if (n > 0 && fread(g_filebuf, 1, (size_t)n, f) != (size_t)n) { fclose(f); fputs(" O=readerr", stdout); return; }
        fclose(f);
        g_reader = LIB(carquet_reader_open_buffer(g_filebuf, (size_t)n, &opt, &err));
    } else {
        g_reader = LIB(carquet_reader_open(field(t, 1), &opt, &err));
    }
    if (g_reader) { fputs(" O=ok", stdout); return; }
    seen_error();
    int nul = memchr(err.message, 0, sizeof(err.message)) != NULL;
    printf(" O=err:%d:%d", (int)err.code, nul);
}

static void cmd_meta(void) {
    if (!g_reader) { fputs(" M=noreader", stdout); return; }
    int32_t nrg = LIB(carquet_reader_num_row_groups(g_reader));
    int32_t ncol = LIB(carquet_reader_num_columns(g_reader));
    printf(" M=%lld:%d:%d:", (long long)LIB(carquet_reader_num_rows(g_reader)), nrg, ncol);
    for (int i = 0; i < nrg && i < 64; i++) {
        carquet_row_group_metadata_t md; memset(&md, 0, sizeof md);
        carquet_status_t st = LIB(carquet_reader_row_group_metadata(g_reader, i, &md));
        printf("%s%lld", i ? "," : "", st == CARQUET_OK ? (long long)md.num_rows : -1LL);
    }
    if (nrg == 0) fputc('-', stdout);
    const carquet_schema_t* s = LIB(carquet_reader_schema(g_reader));
    printf(":%d:%d", s ? LIB(carquet_schema_num_elements(s)) : -1, s ? LIB(carquet_schema_num_columns(s)) : -1);
    if (s) {
        for (int i = 0; i < s->num_leaves && i < MAXCOLS; i++) {
            const carquet_schema_node_t* nd = LIB(carquet_schema_get_element(s, s->leaf_indices[i]));
            const char* nm = nd ? node_name(nd) : NULL;
            fputc(':', stdout);
            if (nm) put_name(nm); else fputc('?', stdout);
            printf(",%d,%d,%d,%d,%d", nd ? (int)LIB(carquet_schema_node_physical_type(nd)) : -1,
                   nd ? (int)LIB(carquet_schema_node_repetition(nd)) : -1, nd ? (int)LIB(carquet_schema_node_type_length(nd)) : -1,
                   (int)s->max_def_levels[i], (int)s->max_rep_levels[i]);
        }
    }
}

static void cmd_get_column(char* t) {
    if (!g_reader) { fputs(" K=noreader", stdout); return; }
    recheck_last();
    if (g_col) { LIBV(carquet_column_reader_free(g_col)); g_col = NULL; }
    carquet_error_t err; memset(&err, 0x5a, sizeof(err)); err.code = CARQUET_OK;
    g_col = LIB(carquet_reader_get_column(g_reader, atoi(field(t, 1)), atoi(field(t, 2)), &err));
    if (!g_col) { printf(" K=err:%d:%d", (int)err.code, memchr(err.message, 0, sizeof(err.message)) != NULL); seen_error(); return; }
    g_col_type = g_col->type; g_col_tlen = g_col->type_length; g_col_maxdef = g_col->max_def_level;
    printf(" K=ok:%d:%d:%d:%d", g_col_type, g_col_tlen, g_col_maxdef, (int)g_col->max_rep_level);
}

static void cmd_read(char* t) {
    if (!g_col) { fputs(" R=nocol", stdout); return; }
    recheck_last();
    int64_t k = atoll(field(t, 1));
    char* nl = field(t, 2);
    int nolevels = nl && nl[0] == '1';
    size_t vs = value_size(g_col_type, g_col_tlen);
    int64_t kk = k > 0 ? k : 0;
    void* vals = malloc(vs * (size_t)kk + (kk == 0));
    int16_t* defs = nolevels ? NULL : (int16_t*)malloc(sizeof(int16_t) * (size_t)kk + (kk == 0));
    int16_t* reps = nolevels ? NULL : (int16_t*)malloc(sizeof(int16_t) * (size_t)kk + (kk == 0));
    int64_t n = LIB(carquet_column_read_batch(g_col, vals, k, defs, reps));
    printf(" R=%lld:", (long long)n); if (n < 0) seen_error();
    int64_t nn = n > 0 ? n : 0;
    if (n > 0 && defs) {
        nn = 0;
        for (int64_t i = 0; i < n; i++) { fputc('0' + (defs[i] & 15), stdout); if (defs[i] == g_col_maxdef) nn++; }
        fputc(':', stdout);
        for (int64_t i = 0; i < n; i++) fputc('0' + (reps[i] & 15), stdout);
    } else fputs("-:-", stdout);
    fputc(':', stdout);
    if (n > 0 && (defs || g_col_maxdef == 0)) dump_values(vals, g_col_type, g_col_tlen, nn); else fputc('-', stdout);
    printf(":%lld:%d", (long long)LIB(carquet_column_remaining(g_col)), (int)LIB(carquet_column_has_next(g_col)));
    if (g_col_type == CARQUET_PHYSICAL_BYTE_ARRAY && n > 0 && (defs || g_col_maxdef == 0) && ba_sane((carquet_byte_array_t*)vals, nn)) {
        g_last_ba = (carquet_byte_array_t*)malloc(sizeof(carquet_byte_array_t) * (size_t)(nn ? nn : 1));
        memcpy(g_last_ba, vals, sizeof(carquet_byte_array_t) * (size_t)nn);
        g_last_ba_n = nn;
        size_t tot = 0; for (int64_t i = 0; i < nn; i++) tot += (size_t)g_last_ba[i].length;
        g_last_snapshot = (uint8_t*)malloc(tot ? tot : 1);
        size_t off = 0; for (int64_t i = 0; i < nn; i++) { if (g_last_ba[i].length > 0) memcpy(g_last_snapshot + off, g_last_ba[i].data, (size_t)g_last_ba[i].length); off += (size_t)g_last_ba[i].length; }
    }
    free(vals); free(defs); free(reps);
}

static void cmd_skip(char* t) {
    if (!g_col) { fputs(" P=nocol", stdout); return; }
    recheck_last();
    int64_t n = LIB(carquet_column_skip(g_col, atoll(field(t, 1))));
    if (n < 0) seen_error();
    printf(" P=%lld:%lld:%d", (long long)n, (long long)LIB(carquet_column_remaining(g_col)), (int)LIB(carquet_column_has_next(g_col)));
}

static size_t batch_bytes(carquet_row_batch_t* b, uint8_t** out) {
    size_t cap = 1 << 16, len = 0; uint8_t* o = (uint8_t*)malloc(cap);
    int32_t nc = LIB(carquet_row_batch_num_columns(b));
    for (int32_t c = 0; c < nc; c++) {
        const void* data = NULL; const uint8_t* bm = NULL; int64_t nv = 0;
        if (LIB(carquet_row_batch_column(b, c, &data, &bm, &nv)) != CARQUET_OK) continue;
        int fc = (c < g_nproj) ? g_proj[c] : c;
        const carquet_schema_t* s = LIB(carquet_reader_schema(g_reader));
        const carquet_schema_node_t* nd = LIB(carquet_schema_get_element(s, s->leaf_indices[fc]));
        int type = (int)LIB(carquet_schema_node_physical_type(nd)), tlen = LIB(carquet_schema_node_type_length(nd));
        int64_t nn = nv;
        if (bm) { nn = 0; for (int64_t i = 0; i < nv; i++) if (!((bm[i / 8] >> (i % 8)) & 1)) nn++; }
        if (type == CARQUET_PHYSICAL_BYTE_ARRAY) {
            const carquet_byte_array_t* a = (const carquet_byte_array_t*)data;
            if (!ba_sane(a, nn)) continue;
            for (int64_t i = 0; i < nn; i++) {
                size_t need = 4 + (size_t)(a[i].length > 0 ? a[i].length : 0);
                if (len + need > cap) { while (len + need > cap) cap *= 2; o = (uint8_t*)realloc(o, cap); }
                memcpy(o + len, &a[i].length, 4); len += 4;
                if (a[i].length > 0) { memcpy(o + len, a[i].data, (size_t)a[i].length); len += (size_t)a[i].length; }
            }
        } else {
            size_t need = (size_t)nn * value_size(type, tlen);
            if (len + need > cap) { while (len + need > cap) cap *= 2; o = (uint8_t*)realloc(o, cap); }
            if (need) memcpy(o + len, data, need);
            len += need;
        }
    }
    *out = o; return len;
}

static void cmd_batch_create(char* t) {
    if (!g_reader) { fputs(" T=noreader", stdout); return; }
    carquet_batch_reader_config_t cfg; carquet_batch_reader_config_init(&cfg);
    cfg.batch_size = atoll(field(t, 1));
    cfg.num_threads = atoi(field(t, 2));
    int byname = atoi(field(t, 3));
    char* pl = field(t, 4);
    static int32_t idx[MAXCOLS]; static const char* names[MAXCOLS]; static char namebuf[MAXCOLS][256];
    g_nproj = 0;
    int32_t ncol = LIB(carquet_reader_num_columns(g_reader));
    if (pl && !(pl[0] == '-' && pl[1] == 0)) {
        char* p = pl;
        while (*p && g_nproj < MAXCOLS) { g_proj[g_nproj++] = (int)strtol(p, &p, 10); if (*p == ',') p++; }
        const carquet_schema_t* s = LIB(carquet_reader_schema(g_reader));
        for (int i = 0; i < g_nproj; i++) {
            idx[i] = g_proj[i];
            const carquet_schema_node_t* nd = (g_proj[i] >= 0 && g_proj[i] < s->num_leaves) ? LIB(carquet_schema_get_element(s, s->leaf_indices[g_proj[i]])) : NULL;
            { const char* nn = nd ? node_name(nd) : NULL; snprintf(namebuf[i], sizeof namebuf[i], "%s", nn ? nn : "no-such-column"); }
            names[i] = namebuf[i];
        }
        if (byname) { cfg.column_names = names; cfg.num_column_names = g_nproj; }
        else { cfg.column_indices = idx; cfg.num_columns = g_nproj; }
    } else { for (int i = 0; i < ncol && i < MAXCOLS; i++) g_proj[g_nproj++] = i; }
    carquet_error_t err; memset(&err, 0x5a, sizeof(err)); err.code = CARQUET_OK;
    g_br = LIB(carquet_batch_reader_create(g_reader, &cfg, &err));
    if (g_br) fputs(" T=ok", stdout); else { printf(" T=err:%d:%d", (int)err.code, memchr(err.message, 0, sizeof(err.message)) != NULL); seen_error(); }
}

static void cmd_batch_next(void) {
    if (!g_br) { fputs(" N=nobr", stdout); return; }
    carquet_row_batch_t* b = NULL;
    carquet_status_t st = LIB(carquet_batch_reader_next(g_br, &b));
    printf(" N=%d", (int)st);
    if (st != CARQUET_OK && st != CARQUET_ERROR_END_OF_DATA) seen_error();
    if (st != CARQUET_OK || !b) return;
    int32_t nc = LIB(carquet_row_batch_num_columns(b));
    printf(":%lld:%d", (long long)LIB(carquet_row_batch_num_rows(b)), nc);
    for (int32_t c = 0; c < nc; c++) {
        const void* data = NULL; const uint8_t* bm = NULL; int64_t nv = 0;
        carquet_status_t cs = LIB(carquet_row_batch_column(b, c, &data, &bm, &nv));
        if (cs != CARQUET_OK) { printf(":err%d", (int)cs); continue; }
        int fc = (c < g_nproj) ? g_proj[c] : c;
        const carquet_schema_t* s = LIB(carquet_reader_schema(g_reader));
        const carquet_schema_node_t* nd = LIB(carquet_schema_get_element(s, s->leaf_indices[fc]));
        int type = (int)LIB(carquet_schema_node_physical_type(nd)), tlen = LIB(carquet_schema_node_type_length(nd));
        printf(":%lld,", (long long)nv);
        int64_t nn = nv;
        if (bm) { nn = 0; for (int64_t i = 0; i < nv; i++) { int isnull = (bm[i / 8] >> (i % 8)) & 1; fputc(isnull ? '1' : '0', stdout); if (!isnull) nn++; } if (nv == 0) fputc('-', stdout); }
        else fputc('x', stdout);
        fputc(',', stdout);
        dump_values(data, type, tlen, nn);
    }
    if (g_nkept < MAXKEPT) { g_kept[g_nkept].b = b; g_kept[g_nkept].snaplen = batch_bytes(b, &g_kept[g_nkept].snap); g_nkept++; }
    else LIBV(carquet_row_batch_free(b));
}

static void cmd_verify_kept(void) {
    int bad = 0;
    for (int i = 0; i < g_nkept; i++) {
        uint8_t* now; size_t n = batch_bytes(g_kept[i].b, &now);
        if (n != g_kept[i].snaplen || memcmp(now, g_kept[i].snap, n) != 0) bad++;
        free(now);
    }
    printf(" V=%d:%d", g_nkept, bad);
}

static void free_kept(void) {
    for (int i = 0; i < g_nkept; i++) { LIBV(carquet_row_batch_free(g_kept[i].b)); free(g_kept[i].snap); }
    g_nkept = 0;
}

static void close_reader_side(void) {
    recheck_last();
    free_kept();
    if (g_col) { LIBV(carquet_column_reader_free(g_col)); g_col = NULL; }
    if (g_br) { LIBV(carquet_batch_reader_free(g_br)); g_br = NULL; }
    if (g_reader) { LIBV(carquet_reader_close(g_reader)); g_reader = NULL; }
    free(g_filebuf); g_filebuf = NULL;
}

static void reset_all(void) {
    close_reader_side();
    if (g_writer) { LIBV(carquet_writer_abort(g_writer)); g_writer = NULL; }
    if (g_wfile) { fclose(g_wfile); g_wfile = NULL; }
    if (g_schema) { LIBV(carquet_schema_free(g_schema)); g_schema = NULL; }
    for (int i = 0; i < g_ncols; i++) { free(g_cols[i].name); g_cols[i].name = NULL; }
    g_ncols = 0; g_nproj = 0;
}

static int is_release(char c) { return c == 'C' || c == 'A' || c == 'X' || c == 'Y' || c == 'U' || c == 'Z' || c == '~' || c == '!' || c == 'F'; }

int main(void) {
    vh_case_t c = {0};
    if (carquet_init() != CARQUET_OK) return 3;
    { const char* e = getenv("VH_INJECT_STACK"); if (e) g_stack = atoi(e); }
    while (vh_next(&c)) {
        if (c.n < 1) continue;
        vh_begin(&c);
        g_case_id = c.tok[0];
        fprintf(stderr, "@@CASE %s\n", g_case_id);
        g_count = 0; g_fail_at = 0; g_fired = 0; g_armed = 0; g_errseen = 0; g_rb_skip = 0; g_policy = 'a';
        fputs(c.tok[0], stdout);
        for (int i = 1; i < c.n; i++) {
            char* t = c.tok[i];
            int fired_before = g_fired;
            if (g_armed && g_errseen && g_policy != 'n' && !is_release(t[0]) && !(t[0] == 'D' && t[1] == 'f')) { printf(" %c=skip", t[0]); continue; }
            if (!g_armed && g_rb_skip && (t[0] == 'O' || t[0] == 'M' || t[0] == 'K' || t[0] == 'R')) { printf(" %c=skip", t[0]); continue; }
            switch (t[0]) {
                case 'k': g_fail_at = atol(field(t, 1)); break;
                case 'E': g_policy = field(t, 1)[0]; break;
                case 'u': unlink(field(t, 1)); break;
                case '!': g_armed = 1; break;
                case '~': g_armed = 0; g_rb_skip = g_errseen; g_errseen = 0; break;
                case 'D': cmd_schema_script(t); break;
                case 'S': cmd_schema_col(t); break;
                case 'W': cmd_writer_create(t); break;
                case 'B': cmd_write_batch(t); break;
                case 'G': if (g_writer) { carquet_status_t st = LIB(carquet_writer_new_row_group(g_writer)); printf(" G=%d", (int)st); if (st != CARQUET_OK) seen_error(); } else fputs(" G=nowriter", stdout); break;
                case 'C':
                    if (!g_writer) { fputs(" C=nowriter", stdout); break; }
                    if (g_armed && g_errseen && g_policy == 'a') { LIBV(carquet_writer_abort(g_writer)); g_writer = NULL; fputs(" A=ok", stdout); if (g_wfile) { fclose(g_wfile); g_wfile = NULL; } break; }
                    { carquet_status_t st = LIB(carquet_writer_close(g_writer)); g_writer = NULL; if (st != CARQUET_OK) seen_error();
                      if (g_wfile) { int fr = fclose(g_wfile); g_wfile = NULL; printf(" C=%d:%d", (int)st, fr); } else printf(" C=%d", (int)st); }
                    break;
                case 'A': if (g_writer) { LIBV(carquet_writer_abort(g_writer)); g_writer = NULL; fputs(" A=ok", stdout); } else fputs(" A=nowriter", stdout); break;
                case 'F': cmd_dump_file(t); break;
                case 'O': cmd_open(t); break;
                case 'M': cmd_meta(); break;
                case 'K': cmd_get_column(t); break;
                case 'R': cmd_read(t); break;
                case 'P': cmd_skip(t); break;
                case 'Q': if (g_col) printf(" Q=%d:%lld", (int)LIB(carquet_column_has_next(g_col)), (long long)LIB(carquet_column_remaining(g_col))); else fputs(" Q=nocol", stdout); break;
                case 'X': recheck_last(); if (g_col) { LIBV(carquet_column_reader_free(g_col)); g_col = NULL; } fputs(" X=ok", stdout); break;
                case 'T': cmd_batch_create(t); break;
                case 'N': cmd_batch_next(); break;
                case 'V': cmd_verify_kept(); break;
                case 'Y': if (g_br) { LIBV(carquet_batch_reader_free(g_br)); g_br = NULL; } fputs(" Y=ok", stdout); break;
                case 'U': free_kept(); fputs(" U=ok", stdout); break;
                case 'Z': close_reader_side(); fputs(" Z=ok", stdout); break;
                default: printf(" ?=%c", t[0]);
            }
            if (g_fired != fired_before) fputs(" h=1", stdout);
        }
        reset_all();
        g_armed = 0;
        printf(" A=%ld:%d", g_count, (int)g_fired);
        int leak = VH_LEAKCHECK();
        if (leak) fputs(" LEAK", stdout);
        fputc('\n', stdout); fflush(stdout);
        if (leak) { fflush(stderr); _exit(0); }
    }
    vh_finish(&c);
    return 0;
}
