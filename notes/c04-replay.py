#!/usr/bin/env python3
"""replay.py <replay.json|dir> [...]: run C04 replay files on the harness built from VERIF_REPO."""
import sys, os, json, glob, subprocess, tempfile
sys.path.insert(0, "/verif")
from vlib import common
from checks import c04
binary = common.build_harness("h_file")
paths = []
for a in sys.argv[1:]:
    paths += sorted(glob.glob(os.path.join(a, "*.json"))) if os.path.isdir(a) else [a]
env = dict(os.environ); env.update(common.ASAN_ENV)
NC = {1: 3, 2: 3, 3: 2}
modes_all = os.environ.get("ALLMODES")
for p in paths:
    j = json.load(open(p)); c = j["case"]
    data = bytes.fromhex(c["file_hex"])
    fd, fn = tempfile.mkstemp(suffix=".parquet", dir=common.scratch_root()); os.write(fd, data); os.close(fd)
    for mode in (("f", "m", "b") if modes_all else (c["mode"],)):
        line = c04.script("x", fn, mode, NC.get(c["base"], 3))
        try:
            r = subprocess.run([binary], input=line + "\n", stdout=subprocess.PIPE, stderr=subprocess.PIPE, text=True, env=env, timeout=30)
            rc, out, err = r.returncode, r.stdout, r.stderr
        except subprocess.TimeoutExpired as ex:
            rc, out, err = "HANG", (ex.stdout or b"").decode() if isinstance(ex.stdout, bytes) else (ex.stdout or ""), ""
        kind, frame = common.asan_signature(err) if err else ("-", "-")
        print("== %s\n   was: %s | %s mode=%s\n   now: rc=%s %s %s" % (os.path.basename(p), j["signature"], c["mutation"], mode, rc, kind if rc else "", frame if rc else ""))
        if os.environ.get("VERBOSE"):
            print(out[-1500:]); print(err[:3000])
    os.unlink(fn)
